#!/venv/bin/python
"""Determinism proof: for every property, N run seeds are executed in fresh interpreters under
different PYTHONHASHSEED values and worker counts; the event-log digest of every run must be
identical across all configurations (one seed = one execution).

  selftest/determinism.py [--runs N] [--props C04,C05] [--seed S]
exit 0 iff no digest differs.
"""
import argparse, json, os, subprocess, sys, tempfile
HERE = os.path.dirname(os.path.dirname(os.path.abspath(__file__)))

CONFIGS = [('0', 16), ('0', 16), ('12345', 5), ('987', 1)]     # (PYTHONHASHSEED, jobs); the first two are the same-config repeat


def main():
    ap = argparse.ArgumentParser()
    ap.add_argument('--runs', type=int, default=200)
    ap.add_argument('--props', default='')
    ap.add_argument('--seed', type=int, default=7)
    a = ap.parse_args()
    props = [p for p in a.props.split(',') if p] or sorted(f[:-3].upper() for f in os.listdir(os.path.join(HERE, 'dsim', 'props')) if f[0] == 'c' and f[1:3].isdigit())
    bad = 0
    out = tempfile.mkdtemp(prefix='dsim_det_')
    for p in props:
        res = []
        for hs, jobs in CONFIGS:
            path = os.path.join(out, '%s_%s_%d.json' % (p, hs, jobs))
            env = dict(os.environ, PYTHONHASHSEED=hs, DSIM_KEEP_HASHSEED='1', DSIM_DIGESTS=path, DSIM_OUT=out, VERIF_SEED=str(a.seed))
            n = a.runs if jobs > 1 else max(20, a.runs // 8)
            r = subprocess.run([sys.executable, os.path.join(HERE, 'run_check.py'), p, '--runs', str(n), '--jobs', str(jobs)],
                               env=env, capture_output=True, text=True, timeout=3000)
            if r.returncode not in (0, 1) or not os.path.exists(path):
                print('%s: run failed under hashseed=%s jobs=%d: %s' % (p, hs, jobs, (r.stdout + r.stderr)[-400:]))
                bad += 1
                res.append({})
                continue
            res.append(json.load(open(path)))
        base = res[0]
        diffs = 0
        compared = 0
        for other in res[1:]:
            for k, v in other.items():
                compared += 1
                if base.get(k) != v:
                    diffs += 1
        print('%s: %d runs x %d configurations, %d digest comparisons, %d mismatches' % (p, len(base), len(CONFIGS), compared, diffs))
        bad += diffs
    import shutil
    shutil.rmtree(out, ignore_errors=True)
    print('determinism: %s' % ('OK' if bad == 0 else 'FAILED (%d)' % bad))
    return 1 if bad else 0


if __name__ == '__main__':
    sys.exit(main())

#!/bin/bash
# Re-run every kept seeded change against the checks that are recorded as catching it.
# usage: selftest/sensitivity.sh [ids...]   (default: all of /verif/seeded)
cd "$(dirname "$0")/.."
ids=${@:-$(ls -d seeded/C*_* | xargs -n1 basename)}
ok=0; bad=0
for id in $ids; do
  checks=$(/venv/bin/python -c "
import json;m=json.load(open('seeded/$id/meta.json'));print(','.join(c for c,x in m['verified']['checks'].items() if x['exit']==1))")
  r=$(tools/seedtest.py seeded/$id --checks "$checks" 2>&1 | tail -1)
  case "$r" in
    *"caught by: []"*|*NOT-CONFIRMED*) echo "MISSED $id ($checks): $r"; bad=$((bad+1));;
    *) ok=$((ok+1));;
  esac
done
echo "sensitivity: $ok caught, $bad missed"
[ $bad -eq 0 ]

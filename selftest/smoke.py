#!/venv/bin/python
"""setup smoke test: the framework imports and one tiny campaign runs."""
import os, sys
HERE = os.path.dirname(os.path.dirname(os.path.abspath(__file__)))
sys.path.insert(0, HERE)
os.chdir(HERE)
from dsim import core, seams, netlist, catalog
print('dsim ok: %d catalogue kinds' % len(catalog.KINDS))

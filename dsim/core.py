"""dsim.core - seeded run loop, worker pool, replay, minimiser, known findings, evidence.

One integer (VERIF_SEED) decides everything: run_seed = h64(VERIF_SEED, property, tier, index),
named sub-streams are derived from the run seed by hashing so that shrinking one list does
not shift the draws of another.  Logging never draws from a PRNG and never reads a clock.
"""
import hashlib
import importlib
import json
import os
import random
import subprocess
import sys
import time
import traceback
import faulthandler
from concurrent.futures import ProcessPoolExecutor, as_completed
import multiprocessing

# emitted expressions of n-ary blocks with more than a hundred inputs nest that deep; the evaluator of vsim is recursive
sys.setrecursionlimit(max(sys.getrecursionlimit(), 20000))

VERIF_DIR = os.path.dirname(os.path.dirname(os.path.abspath(__file__)))
PYTHON = '/venv/bin/python'


def h64(*parts):
    s = '\x1f'.join(str(p) for p in parts).encode()
    return int.from_bytes(hashlib.sha256(s).digest()[:8], 'big')


class Streams:
    """Named PRNG sub-streams derived from one run seed."""

    def __init__(self, run_seed):
        self.run_seed = run_seed
        self._cache = {}

    def get(self, name):
        r = self._cache.get(name)
        if r is None:
            r = self._cache[name] = random.Random(h64(self.run_seed, name))
        return r

    def sub(self, name):
        """an integer seed for a nested stream (stored in scenarios)"""
        return h64(self.run_seed, 'sub', name) & 0xFFFFFFFF


class EventLog:
    """Append-only log of a run; sha256 of it is the run digest."""
    __slots__ = ('h', 'n', 'keep', 'lines')

    def __init__(self, keep=False):
        self.h = hashlib.sha256()
        self.n = 0
        self.keep = keep
        self.lines = []

    def add(self, *parts):
        s = ' '.join(str(p) for p in parts)
        self.h.update(s.encode())
        self.h.update(b'\n')
        self.n += 1
        if self.keep:
            self.lines.append(s)

    def digest(self):
        return self.h.hexdigest()[:16]


class Stats:
    """Per-run / aggregated counters."""

    def __init__(self):
        self.cycles = 0
        self.faults = {}
        self.probes = {}
        self.schedules = set()
        self.states = set()
        self.nontrivial = False

    def fault(self, kind, n=1):
        self.faults[kind] = self.faults.get(kind, 0) + n

    def probe(self, name, n=1):
        self.probes[name] = self.probes.get(name, 0) + n

    CAP = 2_000_000      # distinct-measure sets are capped (memory); the evidence says when the cap was reached

    def sched(self, *parts):
        if len(self.schedules) < self.CAP:
            self.schedules.add(h64(*parts))

    def state(self, *parts):
        if len(self.states) < self.CAP:
            self.states.add(h64(*parts))

    def merge(self, o):
        self.cycles += o.cycles
        for k, v in o.faults.items():
            self.faults[k] = self.faults.get(k, 0) + v
        for k, v in o.probes.items():
            self.probes[k] = self.probes.get(k, 0) + v
        if len(self.schedules) < self.CAP:
            self.schedules |= o.schedules
        if len(self.states) < self.CAP:
            self.states |= o.states


class Violation(Exception):
    """Raised by a property's run() when the oracle is contradicted."""

    def __init__(self, cls, sig, step, detail):
        super().__init__('%s %s step=%s %s' % (cls, sig, step, detail))
        self.cls = cls
        self.sig = sig
        self.step = step
        self.detail = detail

    def as_dict(self):
        return {'cls': self.cls, 'sig': self.sig, 'step': self.step, 'detail': str(self.detail)[:2000]}


class HarnessFault(Exception):
    pass


# --------------------------------------------------------------------------- known findings

class KnownFindings:
    def __init__(self, path=None):
        self.path = path or os.path.join(VERIF_DIR, 'known_findings.json')
        try:
            with open(self.path) as f:
                d = json.load(f)
        except FileNotFoundError:
            d = {'open': [], 'fixed': []}
        self.open = d.get('open', [])
        self.fixed = d.get('fixed', [])
        self._excl = set()
        for e in self.open:
            for t in e.get('exclude', []):
                self._excl.add(t)

    def excluded(self, token):
        """generators call this to keep exactly the listed domain out of the campaign"""
        return token in self._excl

    def for_property(self, prop):
        return [e for e in self.open if e['property'] == prop]

    def match(self, prop, sig):
        for e in self.open:
            if e['property'] == prop and e['signature'] == sig:
                return e
        return None


_KF = None


def known_findings():
    global _KF
    if _KF is None:
        _KF = KnownFindings()
    return _KF


# --------------------------------------------------------------------------- running one scenario

def load_prop(prop):
    return importlib.import_module('dsim.props.' + prop.lower())


def execute(mod, scn, keep_log=False):
    """Run one explicit scenario.  Returns (violation-dict-or-None, stats, digest, log)."""
    from . import seams
    if '__history__' in scn:
        # a replay that needs the runs executed before it in the same process (a violation that depends on what the
        # process did earlier): the scenarios are executed in order, the verdict is the one of the last
        res = None
        digs = []
        for sub in scn['__history__']:
            res = execute(mod, sub, keep_log=keep_log)
            digs.append(res[2])
        return res[0], res[1], h64(*digs), res[3]
    log = EventLog(keep=keep_log)
    st = Stats()
    seams.reset_globals(scn.get('seed', 0))
    viol = None
    try:
        mod.run(scn, log, st)
    except Violation as v:
        viol = v.as_dict()
        log.add('VIOLATION', v.cls, v.sig, v.step)
    except Exception as e:
        # an exception raised from inside py4hw while it runs a legal workload is a failure of the
        # system under test, not of the harness: report it as a violation (class sut-exception)
        tb = traceback.extract_tb(e.__traceback__)
        inner = tb[-1] if tb else None
        if inner is None or '/py4hw/' not in inner.filename or not getattr(mod, 'SUT_EXCEPTIONS_ARE_VIOLATIONS', True):
            raise
        where = '%s:%s' % (os.path.basename(inner.filename), inner.name)
        v = Violation('sut-exception', 'exception:%s:%s' % (type(e).__name__, where), log.n,
                      '%s: %s (at %s line %d)' % (type(e).__name__, e, inner.filename, inner.lineno))
        viol = v.as_dict()
        log.add('VIOLATION', v.cls, v.sig)
    finally:
        seams.reset_globals(0)
    return viol, st, log.digest(), log


def run_index(mod, verif_seed, tier, index):
    run_seed = h64(verif_seed, mod.PROP, tier, index)
    rs = Streams(run_seed)
    scn = mod.gen(rs, tier, index)
    scn['seed'] = run_seed
    scn['index'] = index
    return scn


_PROCESS_HISTORY = []       # indices executed so far by this (worker) process


def _worker(args):
    prop, verif_seed, tier, indices, wall_cap = args
    faulthandler.enable()
    faulthandler.dump_traceback_later(wall_cap, exit=True)
    try:
        mod = load_prop(prop)
        agg = Stats()
        digests_nt = set()
        all_digests = {}
        viols = []
        samples = []
        nruns = 0
        for idx in indices:
            scn = run_index(mod, verif_seed, tier, idx)
            viol, st, dig, _ = execute(mod, scn)
            nruns += 1
            agg.merge(st)
            all_digests[idx] = dig
            if st.nontrivial:
                digests_nt.add(dig)
            if viol is not None and len(viols) < 4:
                viols.append((idx, scn, viol, list(_PROCESS_HISTORY)))
            _PROCESS_HISTORY.append(idx)
            if len(samples) < 1:
                samples.append(scn)
        return {'ok': True, 'nruns': nruns, 'stats': agg, 'digests_nt': digests_nt,
                'all_digests': all_digests, 'viols': viols, 'samples': samples}
    except BaseException:
        return {'ok': False, 'err': traceback.format_exc()}
    finally:
        faulthandler.cancel_dump_traceback_later()


# --------------------------------------------------------------------------- minimiser

def minimise(mod, scn, viol, max_execs=300, max_s=60.0):
    """Greedy structural shrinking: accept a candidate only if the same signature persists."""
    if not hasattr(mod, 'shrink'):
        return scn, viol, 0
    t0 = time.monotonic()
    execs = 0
    cur, cur_v = scn, viol
    # the part of a signature that must persist while shrinking; parameter predicates (the suffix)
    # are re-evaluated on the minimised scenario
    base = getattr(mod, 'sig_base', lambda s: s)
    progress = True
    while progress and execs < max_execs and time.monotonic() - t0 < max_s:
        progress = False
        for cand in mod.shrink(cur):
            if execs >= max_execs or time.monotonic() - t0 >= max_s:
                break
            execs += 1
            try:
                v, _, _, _ = execute(mod, cand)
            except Exception:
                continue
            if v is not None and base(v['sig']) == base(cur_v['sig']):
                cur, cur_v = cand, v
                progress = True
                break
    return cur, cur_v, execs


def shrink_list(scn, key, min_len=0):
    """ddmin-style candidates for scn[key] (a list): drop halves, quarters, ... single items."""
    lst = scn[key]
    n = len(lst)
    if n <= min_len:
        return
    chunk = n // 2
    while chunk >= 1:
        i = 0
        while i < n:
            new = lst[:i] + lst[i + chunk:]
            if len(new) >= min_len and len(new) < n:
                c = dict(scn)
                c[key] = new
                yield c
            i += chunk
        chunk //= 2


# --------------------------------------------------------------------------- replay

def write_replay(prop, scn, viol, digest, tag=''):
    d = os.path.join(os.environ.get('DSIM_OUT', os.path.join(VERIF_DIR, 'out')), 'replay')
    os.makedirs(d, exist_ok=True)
    body = {'property': prop, 'scenario': scn, 'violation': viol, 'digest': digest}
    name = '%s-%s%s.json' % (prop, hashlib.sha256(json.dumps(body, sort_keys=True).encode()).hexdigest()[:12], tag)
    path = os.path.join(d, name)
    with open(path, 'w') as f:
        json.dump(body, f, indent=1, sort_keys=True)
    return path


def replay_file(path, verbose=True):
    """Re-execute the explicit scenario of a replay file in this process.
    Returns (reproduced: bool, violation-or-None)."""
    with open(path) as f:
        body = json.load(f)
    mod = load_prop(body['property'])
    viol, st, dig, log = execute(mod, body['scenario'], keep_log=verbose)
    want = body['violation']
    ok = viol is not None and viol['sig'] == want['sig'] and viol['step'] == want['step']
    return ok, viol, dig, log


def replay_fresh(path, timeout=300):
    """Replay in a fresh interpreter; True iff it reproduces the same signature at the same step."""
    env = dict(os.environ)
    env['PYTHONHASHSEED'] = '0'
    p = subprocess.run([PYTHON, os.path.join(VERIF_DIR, 'run_check.py'), '--replay', path, '--quiet'],
                       cwd=VERIF_DIR, env=env, capture_output=True, text=True, timeout=timeout)
    return p.returncode == 1 and 'REPRODUCED' in p.stdout, p.stdout + p.stderr


def history_replay(mod, prop, verif_seed, tier, hist, scn, viol, max_trials=40):
    """Find a short list of earlier runs of the same process after which `scn` violates in a fresh interpreter.
    Returns (replay path, violation, trials) or (None, None, trials)."""
    import tempfile
    prefix = [run_index(mod, verif_seed, tier, i) for i in hist]
    trials = [0]

    def fails(pre):
        trials[0] += 1
        body = {'property': prop, 'scenario': {'__history__': pre + [scn]}, 'violation': viol, 'digest': ''}
        fd, tmp = tempfile.mkstemp(prefix='dsim_hist_', suffix='.json')
        with os.fdopen(fd, 'w') as f:
            json.dump(body, f)
        try:
            ok, _ = replay_fresh(tmp, timeout=600)
        finally:
            os.unlink(tmp)
        return ok
    if not fails(prefix):
        return None, None, trials[0]
    # ddmin over the prefix
    n = 2
    while len(prefix) >= 1 and trials[0] < max_trials:
        chunk = max(1, len(prefix) // n)
        reduced = False
        for i in range(0, len(prefix), chunk):
            cand = prefix[:i] + prefix[i + chunk:]
            if trials[0] >= max_trials:
                break
            if fails(cand):
                prefix = cand
                n = max(n - 1, 2)
                reduced = True
                break
        if not reduced:
            if chunk == 1:
                break
            n = min(len(prefix), n * 2)
    hscn = {'__history__': prefix + [scn], 'seed': scn.get('seed', 0), 'index': scn.get('index')}
    path = write_replay(prop, hscn, viol, '', tag='-history')
    ok, _ = replay_fresh(path, timeout=600)
    return (path, viol, trials[0]) if ok else (None, None, trials[0])


# --------------------------------------------------------------------------- campaign

def campaign(prop, tier, verif_seed, nruns=None, jobs=None, out=sys.stdout):
    t0 = time.monotonic()
    mod = load_prop(prop)
    kf = known_findings()
    if nruns is None:
        nruns = mod.TIERS[tier]
    jobs = jobs or min(16, os.cpu_count() or 1)
    wall_cap = getattr(mod, 'WALL_CAP', {}).get(tier, 1500 if tier == 'quick' else 7200)

    print('dsim property=%s tier=%s VERIF_SEED=%d runs=%d jobs=%d' % (prop, tier, verif_seed, nruns, jobs), file=out)

    # 2. the seeded campaign
    chunks = [[] for _ in range(jobs * 4)]
    for i in range(nruns):
        chunks[i % len(chunks)].append(i)
    chunks = [c for c in chunks if c]
    agg = Stats()
    digests_nt = set()
    all_digests = {}
    viols = []
    samples = []
    done = 0
    ctx = multiprocessing.get_context('fork')
    with ProcessPoolExecutor(max_workers=jobs, mp_context=ctx) as ex:
        futs = [ex.submit(_worker, (prop, verif_seed, tier, c, wall_cap)) for c in chunks]
        for fu in as_completed(futs, timeout=wall_cap + 60):
            r = fu.result()
            if not r['ok']:
                raise HarnessFault('worker failed:\n' + r['err'])
            done += r['nruns']
            agg.merge(r['stats'])
            digests_nt |= r['digests_nt']
            all_digests.update(r['all_digests'])
            viols.extend(r['viols'])
            if len(samples) < 3:
                samples.extend(r['samples'][:1])
    if done != nruns:
        raise HarnessFault('ran %d of %d runs' % (done, nruns))

    # 1. committed reproducers of open findings are replayed (after the workers were forked: the workers start from a
    #    process that has executed nothing, so the history of a worker is exactly the runs it executed itself)
    kf_confirmed = []
    for e in kf.for_property(prop):
        rp = os.path.join(VERIF_DIR, e['replay'])
        ok, viol, _, _ = replay_file(rp, verbose=False)
        if ok:
            print('KNOWN-FINDING: property=%s %s [%s]' % (prop, e['what'], e['id']), file=out)
            kf_confirmed.append(e['id'])
        else:
            print('note: known finding %s no longer reproduces (got %s)' % (e['id'], viol and viol['sig']), file=out)

    # 1b. committed regression scenarios: explicit scenarios that once violated the property (defects since repaired
    #     in /repo, see known_findings.json "fixed") are executed again; any violation is reported like a campaign one
    reg_viols = []
    reg_run = 0
    regdir = os.path.join(VERIF_DIR, 'regressions')
    for fn in sorted(os.listdir(regdir)) if os.path.isdir(regdir) else []:
        if not fn.startswith(prop + '-') or not fn.endswith('.json'):
            continue
        rp = os.path.join(regdir, fn)
        try:
            with open(rp) as f:
                body = json.load(f)
            viol, _, dig, _ = execute(mod, body['scenario'])
        except Exception as e:      # a scenario written for an older harness: skipped, never a verdict
            print('note: regression scenario %s not executable by this harness (%s)' % (fn, type(e).__name__), file=out)
            continue
        reg_run += 1
        if viol is not None:
            reg_viols.append((rp, body['scenario'], viol, dig))

    if os.environ.get('DSIM_DIGESTS'):
        with open(os.environ['DSIM_DIGESTS'], 'w') as f:
            json.dump({str(k): v for k, v in sorted(all_digests.items())}, f)
    # 3. determinism spot check: re-run ~1% of the runs in this process, digests must match
    spot = sorted(all_digests)[:: max(1, nruns // max(3, nruns // 100))][:25]
    mism = 0
    for idx in spot:
        scn = run_index(mod, verif_seed, tier, idx)
        _, _, dig, _ = execute(mod, scn)
        if dig != all_digests[idx]:
            mism += 1

    # 4. violations: minimise, replay in a fresh process, triage against known findings
    viols.sort(key=lambda t: t[0])
    reported = []
    unreplayable = []
    kf_hits = {}
    seen_sigs = set()
    final_sigs = set()
    attempts = {}
    for idx, scn, viol, hist in viols:
        if viol['sig'] in seen_sigs:
            continue
        # a violation that does not replay in a fresh process (it depended on what the worker had done before) is not
        # reported; another run with the same raw signature is tried instead, a few times
        attempts[viol['sig']] = attempts.get(viol['sig'], 0) + 1
        if attempts[viol['sig']] > 4:
            continue
        if len(seen_sigs) > 6:
            break
        mscn, mviol, nex = minimise(mod, scn, viol)
        _, _, dig, _ = execute(mod, mscn)
        path = write_replay(prop, mscn, mviol, dig)
        ok, txt = replay_fresh(path)
        if not ok and hist:
            # the violation depends on what the worker process had executed before: replay the history of that process
            # (explicit scenarios, in order) in a fresh interpreter and cut it down to the runs that are needed
            hpath, hviol, ntr = history_replay(mod, prop, verif_seed, tier, hist, scn, viol)
            if hpath is not None:
                path, mviol, nex, ok = hpath, hviol, ntr, True
                print('note: violation %s of run %d needs the runs executed before it in the same process; replay file holds that history' % (viol['sig'], idx), file=out)
        if not ok:
            unreplayable.append((mviol['sig'], idx, txt[-600:]))
            continue
        seen_sigs.add(viol['sig'])
        if mviol['sig'] in final_sigs:
            continue
        final_sigs.add(mviol['sig'])
        e = kf.match(prop, mviol['sig'])
        if e is not None:
            kf_hits[e['id']] = kf_hits.get(e['id'], 0) + 1
            if e['id'] not in kf_confirmed:
                print('KNOWN-FINDING: property=%s %s [%s]' % (prop, e['what'], e['id']), file=out)
                kf_confirmed.append(e['id'])
            continue
        print('violation: class=%s signature=%s step=%s run_index=%d minimised_in=%d execs' % (
            mviol['cls'], mviol['sig'], mviol['step'], idx, nex), file=out)
        print('  detail: %s' % str(mviol['detail'])[:600], file=out)
        print('VIOLATION property=%s replay=%s' % (prop, path), file=out)
        reported.append(path)

    for rp, rscn, rviol, rdig in reg_viols:
        if rviol['sig'] in final_sigs or kf.match(prop, rviol['sig']) is not None:
            continue
        final_sigs.add(rviol['sig'])
        path = write_replay(prop, rscn, rviol, rdig)
        print('violation: class=%s signature=%s step=%s regression_scenario=%s' % (rviol['cls'], rviol['sig'], rviol['step'], os.path.basename(rp)), file=out)
        print('  detail: %s' % str(rviol['detail'])[:600], file=out)
        print('VIOLATION property=%s replay=%s' % (prop, path), file=out)
        reported.append(path)

    if unreplayable and not reported:
        raise HarnessFault('violation %s from run %d does not replay in a fresh process:\n%s' % unreplayable[0])
    for u in unreplayable:
        print('note: violation %s from run %d did not replay in a fresh process (process-history dependent)' % (u[0], u[1]), file=out)
    if mism and not reported:
        raise HarnessFault('determinism spot check failed on %d of %d runs' % (mism, len(spot)))
    if mism:
        print('warning: %d of %d re-executed runs gave a different digest in another process (results depend on process history)' % (mism, len(spot)), file=out)
    wall = time.monotonic() - t0
    # 5. evidence
    ev = {
        'property_id': prop, 'tier': tier, 'seed': verif_seed, 'level': 'exploration',
        'coverage': {
            'evaluations': nruns,
            'distinct_nontrivial': len(digests_nt),
            'rule': mod.RULE,
            'samples': [_clip_sample(s) for s in samples[:2]],
            'runs_per_hour': int(nruns / wall * 3600) if wall > 0 else 0,
            'sim_cycles': agg.cycles,
            'sim_time_ns': agg.cycles * 20,
            'fault_counts': dict(sorted(agg.faults.items())),
            'probe_counts': dict(sorted(agg.probes.items())),
            'distinct_schedules': len(agg.schedules),
            'distinct_states': len(agg.states),
            'distinct_measures_capped_at': Stats.CAP if (len(agg.schedules) >= Stats.CAP or len(agg.states) >= Stats.CAP) else None,
            'real_components': getattr(mod, 'REAL', []),
            'stub_components': getattr(mod, 'STUB', []),
            'known_findings_confirmed': kf_confirmed,
            'regression_scenarios_replayed': reg_run,
            'determinism_spotcheck': {'pairs': len(spot), 'mismatches': mism},
            'exhaustive': False,
        },
        'assumptions': getattr(mod, 'ASSUMPTIONS', []),
        'wall_s': round(wall, 2),
        'violations': len(reported),
    }
    zero = [k for k in getattr(mod, 'PROBES', []) if agg.probes.get(k, 0) == 0]
    if zero:
        print('warning: probes never hit: %s' % ', '.join(zero), file=out)
        ev['coverage']['probes_never_hit'] = zero
    evdir = os.path.join(os.environ['DSIM_OUT'], 'evidence') if os.environ.get('DSIM_OUT') else os.path.join(VERIF_DIR, 'evidence')
    os.makedirs(evdir, exist_ok=True)
    with open(os.path.join(evdir, prop + '.json'), 'w') as f:
        json.dump(ev, f, indent=1, sort_keys=True)
    print('runs=%d nontrivial_distinct=%d cycles=%d schedules=%d states=%d faults=%s wall=%.1fs' % (
        nruns, len(digests_nt), agg.cycles, len(agg.schedules), len(agg.states),
        json.dumps(dict(sorted(agg.faults.items()))), wall), file=out)
    print('probes=%s' % json.dumps(dict(sorted(agg.probes.items()))), file=out)
    return 1 if reported else 0


def _clip_sample(s, limit=6000):
    txt = json.dumps(s, sort_keys=True)
    if len(txt) <= limit:
        return s
    return {'clipped_json': txt[:limit] + '...'}

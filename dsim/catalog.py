"""dsim.catalog - library blocks of py4hw with independent reference models.

Each Kind knows how to (a) plan an instance from a pool of available signals, (b) build the
real py4hw block, (c) compute the block's documented function in plain Python integers.
The models are written from the documentation strings and the property statements
(C07/C08/C09), not from propagate()/clock() bodies.

Model protocol
  init(p, iw, ow)            -> state (None for stateless kinds)
  outs(p, st, iv, iw, ow)    -> list of output values (iv may be None for Moore kinds)
  nxt(p, st, iv, iw, ow)     -> next state
  mealy                      -> outputs depend combinationally on inputs
"""
import math

import py4hw
from py4hw.logic import storage as _st
from py4hw.logic import clock as _ck


def M(v, w):
    return v & ((1 << w) - 1)


def S(v, w):
    v &= (1 << w) - 1
    return v - (1 << w) if (v >> (w - 1)) & 1 else v


WIDTHS_BIASED = [1, 1, 2, 2, 3, 4, 5, 7, 8, 8, 9, 15, 16, 17, 31, 32, 33, 63, 64, 65, 70]


# "big" mode (a seeded minority of runs): widths and input counts beyond the sizes ordinary examples use - past 64 bits,
# past 64 inputs - so that a threshold inside the library (a table of masks, a float conversion, a chunked ladder) is crossed
_BIG = [False]
BIG_WIDTHS = [65, 66, 72, 80, 96, 100, 127, 128, 129, 130, 160, 192, 200, 255, 256, 257]
BIG_COUNTS = [9, 16, 17, 33, 63, 64, 65, 66, 70, 100, 127, 128, 129, 130]


def set_big(flag):
    _BIG[0] = bool(flag)


def is_big():
    return _BIG[0]


def count(rng, lo, hi):
    """number of inputs / choices of an n-ary block"""
    if _BIG[0] and rng.random() < 0.6:
        return rng.choice([c for c in BIG_COUNTS if c >= lo])
    return rng.randint(lo, hi)


def rand_width(rng, lo=1, hi=70):
    if _BIG[0] and hi >= 12 and rng.random() < 0.6:
        hi2 = min(hi * 4, 260)
        c = [w for w in BIG_WIDTHS if max(lo, hi + 1) <= w <= hi2]
        if c and rng.random() < 0.7:
            return rng.choice(c)
        return rng.randint(max(lo, hi + 1), max(hi2, hi + 1))
    if rng.random() < 0.6:
        c = [w for w in WIDTHS_BIASED if lo <= w <= hi]
        if c:
            return rng.choice(c)
    return rng.randint(lo, hi)


def small_width(rng, lo=1, hi=12):
    return rng.randint(lo, hi)


class Pool:
    """signals available to feed new nodes: (ref, width).  ref is 'i<k>' or 'n<id>.<k>'"""

    def __init__(self, rng, max_inputs=10, maxw=70):
        self.sigs = []
        self.inputs = []
        self.max_inputs = max_inputs
        self.maxw = maxw
        self.rng = rng

    def new_input(self, w):
        ref = 'i%d' % len(self.inputs)
        self.inputs.append({'name': ref, 'w': w})
        self.sigs.append((ref, w))
        return ref, w

    def add(self, ref, w):
        self.sigs.append((ref, w))

    # set by the netlist generator: emit(kind_name, params, in_refs, out_widths) -> [out refs]
    emit = None

    def nonzero(self, ref, w):
        """guard a divisor: OR with constant 1 so the documented nondeterministic input
        (division / modulo by zero) never occurs inside generated netlists"""
        if self.emit is None:
            return ref
        one = self.emit('Constant', {'value': 1}, [], [w], guard=True)[0]
        return self.emit('Or2', {}, [ref, one], [w], guard=True)[0]

    def pick(self, w):
        c = [s for s in self.sigs if s[1] == w]
        if c and (self.rng.random() < 0.85 or len(self.inputs) >= self.max_inputs):
            # bias to recently created signals -> deeper netlists
            if self.rng.random() < 0.5:
                return c[-1 - min(len(c) - 1, int(self.rng.expovariate(0.7)))]
            return self.rng.choice(c)
        return self.new_input(w)

    def any(self, lo=1, hi=None):
        hi = hi or self.maxw
        c = [s for s in self.sigs if lo <= s[1] <= hi]
        if c and (self.rng.random() < 0.9 or len(self.inputs) >= self.max_inputs):
            if self.rng.random() < 0.5:
                return c[-1 - min(len(c) - 1, int(self.rng.expovariate(0.5)))]
            return self.rng.choice(c)
        return self.new_input(rand_width(self.rng, lo, min(hi, self.maxw)))


class Kind:
    name = '?'
    seq = False
    mealy = True
    stateless = True      # safe for the local-fixpoint oracle
    tags = ()
    weight = 1.0

    def plan(self, rng, pool):
        raise NotImplementedError

    def build(self, parent, name, ins, outs, p):
        raise NotImplementedError

    def init(self, p, iw, ow):
        return None

    def outs(self, p, st, iv, iw, ow):
        raise NotImplementedError

    def nxt(self, p, st, iv, iw, ow):
        return None


KINDS = {}


def register(cls):
    k = cls()
    KINDS[k.name] = k
    return cls


# =========================================================================== gates (C08)

def _gate2(name, pycls, fn, tags=('c08', 'gate')):
    class G(Kind):
        pass
    G.name = name
    G.tags = tags

    def plan(self, rng, pool):
        a, w = pool.any()
        if name in ('And2', 'Or2') and rng.random() < 0.2:
            # the two primitive gates accept operands and a result of different widths (helper functions connect
            # whatever they are given): the result is the operation on the values, reduced to the result width
            b, wb = pool.any()
            return {}, [a, b], [rng.choice([w, wb, min(w, wb), max(w, wb), rand_width(rng)])]
        b, _ = pool.pick(w)
        return {}, [a, b], [w]

    def build(self, parent, nm, ins, outs, p):
        return pycls(parent, nm, ins[0], ins[1], outs[0])

    def outs(self, p, st, iv, iw, ow):
        return [M(fn(iv[0], iv[1], iw[0]), ow[0])]
    G.plan, G.build, G.outs = plan, build, outs
    register(G)


_gate2('And2', py4hw.And2, lambda a, b, w: a & b)
_gate2('Or2', py4hw.Or2, lambda a, b, w: a | b)
_gate2('Xor2', py4hw.Xor2, lambda a, b, w: a ^ b)
_gate2('Nand2', py4hw.Nand2, lambda a, b, w: ~(a & b))
_gate2('Nor2', py4hw.Nor2, lambda a, b, w: ~(a | b))


def _gateN(name, pycls, fn, nmin, nmax=8):
    class G(Kind):
        pass
    G.name = name
    G.tags = ('c08', 'gate')

    def plan(self, rng, pool):
        a, w = pool.any()
        n = count(rng, nmin, nmax)
        ins = [a] + [pool.pick(w)[0] for _ in range(n - 1)]
        return {}, ins, [w]

    def build(self, parent, nm, ins, outs, p):
        return pycls(parent, nm, ins, outs[0])

    def outs(self, p, st, iv, iw, ow):
        acc = iv[0]
        for v in iv[1:]:
            acc = fn(acc, v)
        if name == 'Nor':
            acc = ~acc
        return [M(acc, ow[0])]
    G.plan, G.build, G.outs = plan, build, outs
    register(G)


_gateN('And', py4hw.And, lambda a, b: a & b, 1)
_gateN('Or', py4hw.Or, lambda a, b: a | b, 1)
_gateN('Xor', py4hw.Xor, lambda a, b: a ^ b, 2)
_gateN('Nor', py4hw.Nor, lambda a, b: a | b, 1)


@register
class Not(Kind):
    name = 'Not'
    tags = ('c08', 'gate')

    def plan(self, rng, pool):
        a, w = pool.any()
        return {}, [a], [w]

    def build(self, parent, nm, ins, outs, p):
        return py4hw.Not(parent, nm, ins[0], outs[0])

    def outs(self, p, st, iv, iw, ow):
        return [M(~iv[0], ow[0])]


@register
class Buf(Kind):
    name = 'Buf'
    tags = ('c08', 'gate')

    def plan(self, rng, pool):
        a, w = pool.any()
        return {}, [a], [w]

    def build(self, parent, nm, ins, outs, p):
        return py4hw.Buf(parent, nm, ins[0], outs[0])

    def outs(self, p, st, iv, iw, ow):
        return [M(iv[0], ow[0])]


def _reduce(name, pycls, fn):
    class G(Kind):
        pass
    G.name = name
    G.tags = ('c08', 'reduce')

    def plan(self, rng, pool):
        a, w = pool.any(1, 16)
        return {}, [a], [1]

    def build(self, parent, nm, ins, outs, p):
        return pycls(parent, nm, ins[0], outs[0])

    def outs(self, p, st, iv, iw, ow):
        return [fn(iv[0], iw[0])]
    G.plan, G.build, G.outs = plan, build, outs
    register(G)


_reduce('AndBits', py4hw.AndBits, lambda v, w: 1 if v == (1 << w) - 1 else 0)
_reduce('OrBits', py4hw.OrBits, lambda v, w: 1 if v != 0 else 0)


# =========================================================================== bit manipulation (C08)

@register
class Bit(Kind):
    name = 'Bit'
    tags = ('c08', 'bits')

    def plan(self, rng, pool):
        a, w = pool.any()
        return {'bit': rng.randrange(w)}, [a], [1]

    def build(self, parent, nm, ins, outs, p):
        return py4hw.Bit(parent, nm, ins[0], p['bit'], outs[0])

    def outs(self, p, st, iv, iw, ow):
        return [(iv[0] >> p['bit']) & 1]


@register
class Range(Kind):
    name = 'Range'
    tags = ('c08', 'bits')

    def plan(self, rng, pool):
        a, w = pool.any()
        lo = rng.randrange(w)
        wider = rng.random() < 0.15
        if wider and rng.random() < 0.5:
            lo = 0
        hi = rng.randint(lo, w - 1)
        # the extracted range is right-aligned in the result, which may be wider than the range
        return {'high': hi, 'low': lo}, [a], [hi - lo + 1 + (rng.choice([1, 2, 5]) if wider else 0)]

    def build(self, parent, nm, ins, outs, p):
        return py4hw.Range(parent, nm, ins[0], p['high'], p['low'], outs[0])

    def outs(self, p, st, iv, iw, ow):
        return [M(iv[0] >> p['low'], p['high'] - p['low'] + 1)]


def _bits(name, pycls, msbf):
    class G(Kind):
        pass
    G.name = name
    G.tags = ('c08', 'bits')

    def plan(self, rng, pool):
        a, w = pool.any(1, 12)
        return {}, [a], [1] * w

    def build(self, parent, nm, ins, outs, p):
        return pycls(parent, nm, ins[0], outs)

    def outs(self, p, st, iv, iw, ow):
        w = iw[0]
        if msbf:
            return [(iv[0] >> (w - 1 - i)) & 1 for i in range(w)]
        return [(iv[0] >> i) & 1 for i in range(w)]
    G.plan, G.build, G.outs = plan, build, outs
    register(G)


_bits('BitsLSBF', py4hw.BitsLSBF, False)
_bits('BitsMSBF', py4hw.BitsMSBF, True)


def _concat(name, pycls, msbf):
    class G(Kind):
        pass
    G.name = name
    G.tags = ('c08', 'bits')

    def plan(self, rng, pool):
        n = count(rng, 1, 5)
        ins, tot = [], 0
        for _ in range(n):
            a, w = pool.any(1, 24)
            ins.append(a)
            tot += w
        extra = rng.choice([0, 0, 0, 1, 3])
        return {}, ins, [tot + extra]

    def build(self, parent, nm, ins, outs, p):
        return pycls(parent, nm, ins, outs[0])

    def outs(self, p, st, iv, iw, ow):
        order = list(zip(iv, iw))
        if not msbf:
            order.reverse()      # first listed input is the least significant part
        v = 0
        for x, w in order:
            v = (v << w) | x
        return [M(v, ow[0])]
    G.plan, G.build, G.outs = plan, build, outs
    register(G)


_concat('ConcatenateMSBF', py4hw.ConcatenateMSBF, True)
_concat('ConcatenateLSBF', py4hw.ConcatenateLSBF, False)


@register
class Repeat(Kind):
    name = 'Repeat'
    tags = ('c08', 'bits')

    def plan(self, rng, pool):
        a, _ = pool.pick(1)
        return {}, [a], [rand_width(rng)]

    def build(self, parent, nm, ins, outs, p):
        return py4hw.Repeat(parent, nm, ins[0], outs[0])

    def outs(self, p, st, iv, iw, ow):
        return [(1 << ow[0]) - 1 if iv[0] else 0]


@register
class BufEnable(Kind):
    name = 'BufEnable'
    tags = ('c08', 'bits', 'shared')

    def plan(self, rng, pool):
        a, w = pool.any()
        en, _ = pool.pick(1)
        return {}, [a, en], [w]

    def build(self, parent, nm, ins, outs, p):
        return py4hw.BufEnable(parent, nm, ins[0], ins[1], outs[0])

    def outs(self, p, st, iv, iw, ow):
        return [iv[0] if iv[1] else 0]


@register
class Constant(Kind):
    name = 'Constant'
    tags = ('c08', 'bits')
    weight = 0.6

    def plan(self, rng, pool):
        w = rand_width(rng)
        v = M(rng.choice([0, 1, (1 << w) - 1, 1 << (w - 1), rng.getrandbits(w)]), w)
        if rng.random() < 0.12:
            v = rng.choice([-1, -rng.randint(1, 1 << min(w, 20)), (1 << w) + rng.randint(0, 9)])   # legal: the wire keeps the low bits
        return {'value': v}, [], [w]

    def build(self, parent, nm, ins, outs, p):
        return py4hw.Constant(parent, nm, p['value'], outs[0])

    def outs(self, p, st, iv, iw, ow):
        return [M(p['value'], ow[0])]


# =========================================================================== selectors (C08)

@register
class Mux2(Kind):
    name = 'Mux2'
    tags = ('c08', 'sel')
    weight = 2.0

    def plan(self, rng, pool):
        a, w = pool.any()
        b, _ = pool.pick(w)
        # "Only the LSB of the select signal is considered; higher bits are ignored" (docstring)
        s, _ = pool.pick(1 if rng.random() < 0.9 else rng.choice([2, 3, 8]))
        return {}, [s, a, b], [w]

    def build(self, parent, nm, ins, outs, p):
        return py4hw.Mux2(parent, nm, ins[0], ins[1], ins[2], outs[0])

    def outs(self, p, st, iv, iw, ow):
        return [M(iv[2] if (iv[0] & 1) else iv[1], ow[0])]


@register
class Mux(Kind):
    name = 'Mux'
    tags = ('c08', 'sel')

    def plan(self, rng, pool):
        k = rng.randint(1, 3)
        a, w = pool.any()
        ins = [a] + [pool.pick(w)[0] for _ in range((1 << k) - 1)]
        s, _ = pool.pick(k)
        return {'k': k}, [s] + ins, [w]

    def build(self, parent, nm, ins, outs, p):
        return py4hw.Mux(parent, nm, ins[0], list(ins[1:]), outs[0])

    def outs(self, p, st, iv, iw, ow):
        return [M(iv[1 + iv[0]], ow[0])]


@register
class Demux(Kind):
    name = 'Demux'
    tags = ('c08', 'sel')

    def plan(self, rng, pool):
        k = rng.randint(1, 3)
        a, w = pool.any()
        s, _ = pool.pick(k)
        return {'k': k}, [a, s], [w] * (1 << k)

    def build(self, parent, nm, ins, outs, p):
        return py4hw.Demux(parent, nm, ins[0], ins[1], outs)

    def outs(self, p, st, iv, iw, ow):
        return [iv[0] if iv[1] == i else 0 for i in range(len(ow))]


@register
class Decoder(Kind):
    name = 'Decoder'
    tags = ('c08', 'sel')

    def plan(self, rng, pool):
        k = rng.randint(1, 4)
        a, _ = pool.pick(k)
        n = rng.choice([1 << k, 1 << k, rng.randint(1, 1 << k)])
        return {}, [a], [1] * n

    def build(self, parent, nm, ins, outs, p):
        return py4hw.Decoder(parent, nm, ins[0], outs)

    def outs(self, p, st, iv, iw, ow):
        return [1 if iv[0] == i else 0 for i in range(len(ow))]


def _onehotmux(name, pycls):
    class G(Kind):
        pass
    G.name = name
    G.tags = ('c08', 'sel')

    def plan(self, rng, pool):
        n = count(rng, 1, 5)
        a, w = pool.any()
        ins = [a] + [pool.pick(w)[0] for _ in range(n - 1)]
        sels = [pool.pick(1)[0] for _ in range(n)]
        if name == 'OneHotMux':
            # OneHotMux names its ports after the wires: need distinct wires
            if len(set(ins + sels)) != len(ins + sels):
                ins = [pool.new_input(w)[0] for _ in range(n)]
                sels = [pool.new_input(1)[0] for _ in range(n)]
        return {'n': n}, sels + ins, [w]

    def build(self, parent, nm, ins, outs, p):
        n = p['n']
        return pycls(parent, nm, list(ins[:n]), list(ins[n:]), outs[0])

    def outs(self, p, st, iv, iw, ow):
        n = p['n']
        acc = 0
        for i in range(n):
            if iv[i]:
                acc |= iv[n + i]
        return [M(acc, ow[0])]
    G.plan, G.build, G.outs = plan, build, outs
    register(G)


_onehotmux('Select', py4hw.Select)
_onehotmux('OneHotMux', py4hw.OneHotMux)


@register
class OneHotDemux(Kind):
    name = 'OneHotDemux'
    tags = ('c08', 'sel')

    def plan(self, rng, pool):
        n = count(rng, 1, 5)
        a, w = pool.any()
        sels = [pool.pick(1)[0] for _ in range(n)]
        return {'n': n}, sels + [a], [w] * n

    def build(self, parent, nm, ins, outs, p):
        n = p['n']
        return py4hw.OneHotDemux(parent, nm, list(ins[:n]), ins[n], list(outs))

    def outs(self, p, st, iv, iw, ow):
        n = p['n']
        return [iv[n] if iv[i] else 0 for i in range(n)]


@register
class SelectDefault(Kind):
    name = 'SelectDefault'
    tags = ('c08', 'sel', 'antidataflow')

    def plan(self, rng, pool):
        n = count(rng, 1, 5)
        a, w = pool.any()
        ins = [a] + [pool.pick(w)[0] for _ in range(n - 1)]
        sels = [pool.pick(1)[0] for _ in range(n)]
        d, _ = pool.pick(w)
        return {'n': n}, sels + ins + [d], [w]

    def build(self, parent, nm, ins, outs, p):
        n = p['n']
        return py4hw.SelectDefault(parent, nm, list(ins[:n]), list(ins[n:2 * n]), ins[2 * n], outs[0])

    def outs(self, p, st, iv, iw, ow):
        n = p['n']
        for i in range(n):          # first asserted select wins, else default
            if iv[i] & 1:
                return [iv[n + i]]
        return [iv[2 * n]]


@register
class PriorityEncoder(Kind):
    name = 'PriorityEncoder'
    tags = ('c08', 'sel')

    def plan(self, rng, pool):
        n = count(rng, 1, 7)
        ins = [pool.pick(1)[0] for _ in range(n)]
        return {'inc': rng.random() < 0.5}, ins, [1] * n

    def build(self, parent, nm, ins, outs, p):
        return py4hw.PriorityEncoder(parent, nm, ins, outs, inc_priority=p['inc'])

    def outs(self, p, st, iv, iw, ow):
        # one-hot of the winning request; inc_priority=True => highest index wins
        # (pinned by the unit test and the in-code comment; the docstring says the opposite)
        n = len(iv)
        order = range(n - 1, -1, -1) if p['inc'] else range(n)
        r = [0] * n
        for i in order:
            if iv[i]:
                r[i] = 1
                break
        return r


@register
class Minterm(Kind):
    name = 'Minterm'
    tags = ('c08', 'sel')

    def plan(self, rng, pool):
        n = count(rng, 1, 6)
        ins = [pool.pick(1)[0] for _ in range(n)]
        return {'value': rng.getrandbits(n)}, ins, [1]

    def build(self, parent, nm, ins, outs, p):
        return py4hw.Minterm(parent, nm, ins, p['value'], outs[0])

    def outs(self, p, st, iv, iw, ow):
        v = 0
        for i, b in enumerate(iv):
            v |= (b & 1) << i
        return [1 if v == p['value'] else 0]


@register
class SumOfMinterms(Kind):
    name = 'SumOfMinterms'
    tags = ('c08', 'sel')

    def plan(self, rng, pool):
        a, w = pool.any(1, 5)
        k = rng.randint(1, min(6, 1 << w))
        ms = sorted(rng.sample(range(1 << w), k))
        r = rng.random()
        if r < 0.15:
            # the list as a user writes it: unsorted, with repeated entries (also exactly 2**w entries that do not list every value)
            ms = [rng.choice(ms) for _ in range(rng.choice([len(ms) + 1, 1 << w, (1 << w) + 1]))] + ms[:1]
            rng.shuffle(ms)
            if w <= 3 and rng.random() < 0.5:
                ms = (ms * 8)[:1 << w]
        elif r < 0.2:
            ms = list(range(1 << w))            # every value: the constant 1
        return {'minterms': ms}, [a], [1]

    def build(self, parent, nm, ins, outs, p):
        return py4hw.SumOfMinterms(parent, nm, ins[0], list(p['minterms']), outs[0])

    def outs(self, p, st, iv, iw, ow):
        return [1 if iv[0] in p['minterms'] else 0]


@register
class Swap(Kind):
    name = 'Swap'
    tags = ('c08', 'sel')

    def plan(self, rng, pool):
        a, w = pool.any()
        b, _ = pool.pick(w)
        s, _ = pool.pick(1)
        return {}, [a, b, s], [w, w]

    def build(self, parent, nm, ins, outs, p):
        return py4hw.Swap(parent, nm, ins[0], ins[1], ins[2], outs[0], outs[1])

    def outs(self, p, st, iv, iw, ow):
        return [iv[1], iv[0]] if iv[2] & 1 else [iv[0], iv[1]]


# =========================================================================== comparators (C08)

@register
class Equal(Kind):
    name = 'Equal'
    tags = ('c08', 'cmp')

    def plan(self, rng, pool):
        a, w = pool.any(1, 40)
        b, _ = pool.pick(w)
        return {}, [a, b], [1]

    def build(self, parent, nm, ins, outs, p):
        return py4hw.Equal(parent, nm, ins[0], ins[1], outs[0])

    def outs(self, p, st, iv, iw, ow):
        return [1 if iv[0] == iv[1] else 0]


def _eqconst(name, pycls, neg):
    class G(Kind):
        pass
    G.name = name
    G.tags = ('c08', 'cmp')

    def plan(self, rng, pool):
        a, w = pool.any(1, 40)
        v = rng.choice([0, (1 << w) - 1, rng.getrandbits(w)])
        return {'v': v}, [a], [1 if rng.random() < 0.85 else rng.choice([2, 8])]      # the flag on a wider wire: 0 / 1

    def build(self, parent, nm, ins, outs, p):
        return pycls(parent, nm, ins[0], p['v'], outs[0])

    def outs(self, p, st, iv, iw, ow):
        eq = iv[0] == p['v']
        return [1 if (eq != neg) else 0]
    G.plan, G.build, G.outs = plan, build, outs
    register(G)


_eqconst('EqualConstant', py4hw.EqualConstant, False)
_eqconst('NotEqualConstant', py4hw.NotEqualConstant, True)


@register
class AnyEqual(Kind):
    name = 'AnyEqual'
    tags = ('c08', 'cmp')

    def plan(self, rng, pool):
        n = min(count(rng, 2, 4), 10)          # (all-pairs comparators: quadratic in n)
        a, w = pool.any(1, 8)
        ins = [a] + [pool.pick(w)[0] for _ in range(n - 1)]
        return {}, ins, [1]

    def build(self, parent, nm, ins, outs, p):
        return py4hw.AnyEqual(parent, nm, ins, outs[0])

    def outs(self, p, st, iv, iw, ow):
        return [1 if len(set(iv)) < len(iv) else 0]


@register
class Comparator(Kind):
    name = 'Comparator'
    tags = ('c08', 'cmp')

    def plan(self, rng, pool):
        a, w = pool.any(1, 40)
        b, _ = pool.pick(w)
        return {}, [a, b], [1, 1, 1]

    def build(self, parent, nm, ins, outs, p):
        return py4hw.Comparator(parent, nm, ins[0], ins[1], outs[0], outs[1], outs[2])

    def outs(self, p, st, iv, iw, ow):
        a, b = iv
        return [int(a > b), int(a == b), int(a < b)]


@register
class ComparatorSignedUnsigned(Kind):
    name = 'ComparatorSignedUnsigned'
    tags = ('c08', 'cmp')

    def plan(self, rng, pool):
        a, w = pool.any(1, 40)
        b, _ = pool.pick(w)
        return {}, [a, b], [1, 1, 1, 1, 1]

    def build(self, parent, nm, ins, outs, p):
        # (gtu, eq, ltu, gt, lt)
        return py4hw.ComparatorSignedUnsigned(parent, nm, ins[0], ins[1], outs[0], outs[1], outs[2], outs[3], outs[4])

    def outs(self, p, st, iv, iw, ow):
        a, b = iv
        sa, sb = S(a, iw[0]), S(b, iw[1])
        return [int(a > b), int(a == b), int(a < b), int(sa > sb), int(sa < sb)]


def _minmax(name, pycls, fn, signed):
    class G(Kind):
        pass
    G.name = name
    G.tags = ('c08', 'cmp')

    def plan(self, rng, pool):
        a, w = pool.any(1, 40)
        b, _ = pool.pick(w)
        return {}, [a, b], [w]

    def build(self, parent, nm, ins, outs, p):
        return pycls(parent, nm, ins[0], ins[1], outs[0])

    def outs(self, p, st, iv, iw, ow):
        if signed:
            return [M(fn(S(iv[0], iw[0]), S(iv[1], iw[1])), ow[0])]
        return [fn(iv[0], iv[1])]
    G.plan, G.build, G.outs = plan, build, outs
    register(G)


_minmax('Max2', py4hw.Max2, max, False)
_minmax('Min2', py4hw.Min2, min, False)
_minmax('SignedMax2', py4hw.SignedMax2, max, True)
_minmax('SignedMin2', py4hw.SignedMin2, min, True)


# =========================================================================== arithmetic (C07)

@register
class Add(Kind):
    name = 'Add'
    tags = ('c07', 'arith', 'shared')
    weight = 2.0

    def plan(self, rng, pool):
        a, aw = pool.any(1, 66)
        mode = rng.random()
        if mode < 0.5:
            b, bw = pool.pick(aw)
            rw = aw
        elif mode < 0.75 and aw > 1:
            # same result width and widest operand as the equal-width shape, narrower second operand
            b, bw = pool.pick(rng.randint(1, aw - 1))
            rw = aw
        else:
            b, bw = pool.any(1, 66)
            rw = rng.randint(aw, max(aw, bw) + 2)
        ci = rng.random() < 0.35
        co = rng.random() < 0.35
        ins = [a, b] + ([pool.pick(1)[0]] if ci else [])
        return {'ci': ci, 'co': co}, ins, [rw] + ([1] if co else [])

    def build(self, parent, nm, ins, outs, p):
        return py4hw.Add(parent, nm, ins[0], ins[1], outs[0], ci=ins[2] if p['ci'] else None,
                         co=outs[1] if p['co'] else None)

    def outs(self, p, st, iv, iw, ow):
        s = iv[0] + iv[1] + (iv[2] if p['ci'] else 0)
        r = [M(s, ow[0])]
        if p['co']:
            r.append((s >> ow[0]) & 1)
        return r


@register
class SignedAdd(Kind):
    name = 'SignedAdd'
    tags = ('c07', 'arith')

    def plan(self, rng, pool):
        a, aw = pool.any(1, 64)
        b, bw = pool.any(1, 64)
        rw = max(aw, bw) + rng.choice([0, 1, 1, 2])
        ci = rng.random() < 0.3
        ins = [a, b] + ([pool.pick(1)[0]] if ci else [])
        return {'ci': ci}, ins, [rw]

    def build(self, parent, nm, ins, outs, p):
        return py4hw.SignedAdd(parent, nm, ins[0], ins[1], outs[0], ci=ins[2] if p['ci'] else None)

    def outs(self, p, st, iv, iw, ow):
        return [M(S(iv[0], iw[0]) + S(iv[1], iw[1]) + (iv[2] if p['ci'] else 0), ow[0])]


@register
class Sub(Kind):
    name = 'Sub'
    tags = ('c07', 'arith')
    weight = 2.0

    def plan(self, rng, pool):
        a, aw = pool.any(1, 66)
        if rng.random() < 0.7:
            b, bw = pool.pick(aw)
            rw = aw
        else:
            b, bw = pool.any(1, 66)
            rw = rand_width(rng, 1, 68)
        return {}, [a, b], [rw]

    def build(self, parent, nm, ins, outs, p):
        return py4hw.Sub(parent, nm, ins[0], ins[1], outs[0])

    def outs(self, p, st, iv, iw, ow):
        return [M(iv[0] - iv[1], ow[0])]


@register
class SubBorrowIn(Kind):
    name = 'SubBorrowIn'
    tags = ('c07', 'arith', 'noverilog')

    def plan(self, rng, pool):
        a, aw = pool.any(1, 66)
        if rng.random() < 0.6:
            b, bw = pool.pick(aw)
        else:
            b, bw = pool.any(1, 66)
        rw = rng.randint(aw, max(aw, bw) + 2)      # the constructor asserts width(r) >= width(a)
        return {}, [a, b, pool.pick(1)[0]], [rw]

    def build(self, parent, nm, ins, outs, p):
        from py4hw.logic.arithmetic import SubBorrowIn as _S
        return _S(parent, nm, ins[0], ins[1], outs[0], ins[2])

    def outs(self, p, st, iv, iw, ow):
        return [M(iv[0] - iv[1] - iv[2], ow[0])]


@register
class SignedSub(Kind):
    name = 'SignedSub'
    tags = ('c07', 'arith')

    def plan(self, rng, pool):
        a, aw = pool.any(1, 64)
        b, bw = pool.any(1, 64)
        rw = max(aw, bw) + rng.choice([0, 1, 1, 2])
        return {}, [a, b], [rw]

    def build(self, parent, nm, ins, outs, p):
        return py4hw.SignedSub(parent, nm, ins[0], ins[1], outs[0])

    def outs(self, p, st, iv, iw, ow):
        return [M(S(iv[0], iw[0]) - S(iv[1], iw[1]), ow[0])]


@register
class Neg(Kind):
    name = 'Neg'
    tags = ('c07', 'arith', 'shared')

    def plan(self, rng, pool):
        a, w = pool.any()
        if w < 60 and rng.random() < 0.12:
            # result wider than the operand: accepted by the constructor; what "negate" means then is not documented
            # (the library negates the zero-extended operand), so function oracles skip it ('amb') - co-simulation does not
            return {'amb': True}, [a], [w + rng.choice([1, 2, 8])]
        return {}, [a], [w]

    def build(self, parent, nm, ins, outs, p):
        return py4hw.Neg(parent, nm, ins[0], outs[0])

    def outs(self, p, st, iv, iw, ow):
        return [M(-iv[0], ow[0])]


@register
class Abs(Kind):
    name = 'Abs'
    tags = ('c07', 'arith', 'shared')

    def plan(self, rng, pool):
        a, w = pool.any()
        inv = rng.random() < 0.3
        return {'inverted': inv}, [a], [w] + ([1] if inv else [])

    def build(self, parent, nm, ins, outs, p):
        return py4hw.Abs(parent, nm, ins[0], outs[0], inverted=outs[1] if p['inverted'] else None)

    def outs(self, p, st, iv, iw, ow):
        s = S(iv[0], iw[0])
        r = [M(abs(s), ow[0])]
        if p['inverted']:
            r.append(1 if s < 0 else 0)
        return r


@register
class Sign(Kind):
    name = 'Sign'
    tags = ('c07', 'arith', 'shared')

    def plan(self, rng, pool):
        a, w = pool.any()
        return {}, [a], [1]

    def build(self, parent, nm, ins, outs, p):
        return py4hw.Sign(parent, nm, ins[0], outs[0])

    def outs(self, p, st, iv, iw, ow):
        return [1 if S(iv[0], iw[0]) < 0 else 0]


@register
class SignExtend(Kind):
    name = 'SignExtend'
    tags = ('c07', 'arith')

    def plan(self, rng, pool):
        a, w = pool.any(1, 60)
        if w > 1 and rng.random() < 0.06:
            return {}, [a], [rng.randint(1, w - 1)]      # narrower result: accepted by the constructor, keeps the low bits
        return {}, [a], [w + rng.choice([0, 1, 1, 2, 7, 10])]

    def build(self, parent, nm, ins, outs, p):
        return py4hw.SignExtend(parent, nm, ins[0], outs[0])

    def outs(self, p, st, iv, iw, ow):
        return [M(S(iv[0], iw[0]), ow[0])]


@register
class ZeroExtend(Kind):
    name = 'ZeroExtend'
    tags = ('c07', 'arith')

    def plan(self, rng, pool):
        a, w = pool.any(1, 60)
        if w > 1 and rng.random() < 0.06:
            return {}, [a], [rng.randint(1, w - 1)]      # narrower result: accepted by the constructor, keeps the low bits
        return {}, [a], [w + rng.choice([0, 1, 1, 2, 7, 10])]

    def build(self, parent, nm, ins, outs, p):
        return py4hw.ZeroExtend(parent, nm, ins[0], outs[0])

    def outs(self, p, st, iv, iw, ow):
        return [M(iv[0], ow[0])]


def _mul(name, pycls, signed):
    class G(Kind):
        pass
    G.name = name
    G.tags = ('c07', 'arith')

    def plan(self, rng, pool):
        a, aw = pool.any(1, 35)
        b, bw = pool.any(1, 35)
        rw = rng.choice([aw + bw, aw + bw, max(aw, bw), aw, rand_width(rng, 1, 70)])
        return {}, [a, b], [rw]

    def build(self, parent, nm, ins, outs, p):
        return pycls(parent, nm, ins[0], ins[1], outs[0])

    def outs(self, p, st, iv, iw, ow):
        if signed:
            return [M(S(iv[0], iw[0]) * S(iv[1], iw[1]), ow[0])]
        return [M(iv[0] * iv[1], ow[0])]
    G.plan, G.build, G.outs = plan, build, outs
    register(G)


_mul('Mul', py4hw.Mul, False)
_mul('SignedMul', py4hw.SignedMul, True)


def _divmod(name, pycls, fn):
    class G(Kind):
        pass
    G.name = name
    G.tags = ('c07', 'arith', 'div')
    G.weight = 0.6

    def plan(self, rng, pool):
        a, aw = pool.any(1, 64)
        b, bw = pool.any(1, 64)
        rw = rng.choice([aw, aw, max(aw, bw), rand_width(rng, 1, 66)])
        return {}, [a, pool.nonzero(b, bw)], [rw]

    def build(self, parent, nm, ins, outs, p):
        return pycls(parent, nm, ins[0], ins[1], outs[0])

    def outs(self, p, st, iv, iw, ow):
        if iv[1] == 0:
            return [None]          # unspecified (documented as nondeterministic)
        return [M(fn(iv[0], iv[1]), ow[0])]
    G.plan, G.build, G.outs = plan, build, outs
    register(G)


_divmod('Div', py4hw.Div, lambda a, b: a // b)
_divmod('Mod', py4hw.Mod, lambda a, b: a % b)


@register
class SignedDiv(Kind):
    name = 'SignedDiv'
    tags = ('c07', 'arith', 'div')
    weight = 0.6

    def plan(self, rng, pool):
        a, aw = pool.any(2, 40)
        b, bw = pool.any(2, 40)
        rw = rng.choice([aw, aw + 1, max(aw, bw) + 1])
        return {}, [a, pool.nonzero(b, bw)], [rw]

    def build(self, parent, nm, ins, outs, p):
        return py4hw.SignedDiv(parent, nm, ins[0], ins[1], outs[0])

    def outs(self, p, st, iv, iw, ow):
        sa, sb = S(iv[0], iw[0]), S(iv[1], iw[1])
        if sb == 0:
            return [None]
        q = abs(sa) // abs(sb)
        if (sa < 0) != (sb < 0):
            q = -q
        return [M(q, ow[0])]


def _shiftk(name, pycls, fn, rot=False):
    class G(Kind):
        pass
    G.name = name
    G.tags = ('c07', 'shift') + (('rot',) if rot else ())

    def plan(self, rng, pool):
        a, w = pool.any()
        if rot:
            n = rng.choice([0, 1, w - 1, w, rng.randint(0, w)])
            n = max(0, n)
            rw = w
        else:
            n = rng.choice([0, 1, w - 1, w, w + 3, rng.randint(0, w + 4)])
            n = max(0, n)
            rw = rng.choice([w, w, w, w + n, rand_width(rng)])
        return {'n': n}, [a], [rw]

    def build(self, parent, nm, ins, outs, p):
        return pycls(parent, nm, ins[0], p['n'], outs[0])

    def outs(self, p, st, iv, iw, ow):
        return [M(fn(iv[0], p['n'], iw[0]), ow[0])]
    G.plan, G.build, G.outs = plan, build, outs
    register(G)


_shiftk('ShiftLeftConstant', py4hw.ShiftLeftConstant, lambda a, n, w: a << n)
_shiftk('ShiftRightConstant', py4hw.ShiftRightConstant, lambda a, n, w: a >> n)
_shiftk('RotateLeftConstant', py4hw.RotateLeftConstant, lambda a, n, w: M((a << (n % w)) | (a >> ((w - n % w) % w)), w), rot=True)
_shiftk('RotateRightConstant', py4hw.RotateRightConstant, lambda a, n, w: M((a >> (n % w)) | (a << ((w - n % w) % w)), w), rot=True)


@register
class ShiftLeft(Kind):
    name = 'ShiftLeft'
    tags = ('c07', 'shift')

    def plan(self, rng, pool):
        a, w = pool.any()
        b, wb = pool.any(1, 5)
        rw = rng.choice([w, w, w + 3, rand_width(rng)])
        return {}, [a, b], [rw]

    def build(self, parent, nm, ins, outs, p):
        return py4hw.ShiftLeft(parent, nm, ins[0], ins[1], outs[0])

    def outs(self, p, st, iv, iw, ow):
        return [M(iv[0] << iv[1], ow[0])]


@register
class ShiftRight(Kind):
    name = 'ShiftRight'
    tags = ('c07', 'shift')

    def plan(self, rng, pool):
        from .core import known_findings
        a, w = pool.any()
        b, wb = pool.any(1, 5)
        mode = rng.choice(['logical', 'arith', 'wire'])
        rw = rng.choice([w, w, w + 3, rand_width(rng)])
        if mode != 'logical' and rw > w + (1 << wb) and known_findings().excluded('shiftright-arith-result-wider'):
            rw = w
        ins = [a, b] + ([pool.pick(1)[0]] if mode == 'wire' else [])
        return {'mode': mode}, ins, [rw]

    def build(self, parent, nm, ins, outs, p):
        ar = {'logical': False, 'arith': True}.get(p['mode'])
        if p['mode'] == 'wire':
            ar = ins[2]
        return py4hw.ShiftRight(parent, nm, ins[0], ins[1], outs[0], arithmetic=ar)

    def outs(self, p, st, iv, iw, ow):
        ar = p['mode'] == 'arith' or (p['mode'] == 'wire' and (iv[2] & 1))
        if ar:
            return [M(S(iv[0], iw[0]) >> iv[1], ow[0])]
        return [M(iv[0] >> iv[1], ow[0])]


def _rotv(name, pycls, left):
    class G(Kind):
        pass
    G.name = name
    G.tags = ('c07', 'shift', 'rot')

    def plan(self, rng, pool):
        a, w = pool.any(1, 64)
        # every stage rotates by 2**i <= w ("rotation amounts up to the data width")
        # and the amount wire cannot exceed w, so the stated domain is never left
        wbmax = max(1, int(math.log2(w + 1)))
        wb = rng.randint(1, min(wbmax, 5))
        b, _ = pool.pick(wb)
        return {}, [a, b], [w]

    def build(self, parent, nm, ins, outs, p):
        return pycls(parent, nm, ins[0], ins[1], outs[0])

    def outs(self, p, st, iv, iw, ow):
        w = iw[0]
        n = iv[1]
        if n > w:
            return [None]      # outside the stated domain
        n %= w
        a = iv[0]
        if left:
            return [M((a << n) | (a >> ((w - n) % w)), w)]
        return [M((a >> n) | (a << ((w - n) % w)), w)]
    G.plan, G.build, G.outs = plan, build, outs
    register(G)


_rotv('RotateLeft', py4hw.RotateLeft, True)
_rotv('RotateRight', py4hw.RotateRight, False)


@register
class CountLeadingZeros(Kind):
    name = 'CountLeadingZeros'
    tags = ('c07', 'arith', 'antidataflow')
    weight = 0.5

    def plan(self, rng, pool):
        a, w = pool.any(2, 40)
        rmin = int(math.ceil(math.log2(w)))
        rw = rmin + rng.choice([0, 1, 1, 2])
        return {}, [a], [max(1, rw), 1]

    def build(self, parent, nm, ins, outs, p):
        return py4hw.CountLeadingZeros(parent, nm, ins[0], outs[0], outs[1])

    def outs(self, p, st, iv, iw, ow):
        w = iw[0]
        a = iv[0]
        n = w - a.bit_length()
        return [M(n, ow[0]), 1 if a == 0 else 0]


@register
class BinaryToBCD(Kind):
    name = 'BinaryToBCD'
    tags = ('c07', 'arith')
    weight = 0.4

    def plan(self, rng, pool):
        a, w = pool.any(1, 20)
        digits = rng.randint(1, len(str((1 << w) - 1)) + 1)
        return {}, [a], [4 * digits]

    def build(self, parent, nm, ins, outs, p):
        return py4hw.BinaryToBCD(parent, nm, ins[0], outs[0])

    def outs(self, p, st, iv, iw, ow):
        v, r = iv[0], 0
        for i in range(ow[0] // 4):
            r |= (v % 10) << (4 * i)
            v //= 10
        return [r]


# =========================================================================== sequential (C09)

class SeqKind(Kind):
    seq = True
    mealy = False
    stateless = False
    tags = ('c09', 'seq')


@register
class Reg(SeqKind):
    name = 'Reg'
    tags = ('c09', 'seq', 'shared')
    weight = 4.0

    def plan(self, rng, pool):
        d, w = pool.any()
        en = rng.random() < 0.5
        rs = rng.random() < 0.5
        rv = 0
        qw = w
        if w > 2 and rng.random() < 0.05:
            qw = rng.randint(1, w - 1)          # q narrower than d: the register keeps the low bits
        # a reset value without a reset wire is the register's power-up value
        if rng.random() < (0.5 if rs else 0.25):
            rv = rng.choice([1, (1 << qw) - 1, rng.getrandbits(qw), rng.getrandbits(qw), -1, -rng.randint(1, 9)])
        ins = [d] + ([pool.pick(1)[0]] if en else []) + ([pool.pick(1)[0]] if rs else [])
        return {'en': en, 'rs': rs, 'rv': rv}, ins, [qw]

    def build(self, parent, nm, ins, outs, p):
        i = 1
        en = rs = None
        if p['en']:
            en = ins[i]
            i += 1
        if p['rs']:
            rs = ins[i]
        return py4hw.Reg(parent, nm, ins[0], outs[0], enable=en, reset=rs,
                         reset_value=p['rv'] if p['rv'] else None)

    def init(self, p, iw, ow):
        # power-up: the register holds its reset value and q shows it (as `reg rq = <reset value>` in Verilog)
        return (p['rv'], M(p['rv'], ow[0]))

    def outs(self, p, st, iv, iw, ow):
        return [M(st[1], ow[0])]

    def nxt(self, p, st, iv, iw, ow):
        val = st[0]
        i = 1
        en = 1
        rs = 0
        if p['en']:
            en = iv[i]
            i += 1
        if p['rs']:
            rs = iv[i]
        if rs == 1:
            val = p['rv']
        elif en != 0:
            val = iv[0]
        return (val, M(val, ow[0]))


@register
class TReg(SeqKind):
    name = 'TReg'

    def plan(self, rng, pool):
        t, _ = pool.pick(1)
        en = rng.random() < 0.4
        rs = rng.random() < 0.4
        ins = [t] + ([pool.pick(1)[0]] if en else []) + ([pool.pick(1)[0]] if rs else [])
        return {'en': en, 'rs': rs}, ins, [1]

    def build(self, parent, nm, ins, outs, p):
        i = 1
        en = rs = None
        if p['en']:
            en = ins[i]
            i += 1
        if p['rs']:
            rs = ins[i]
        return py4hw.TReg(parent, nm, ins[0], outs[0], enable=en, reset=rs)

    def init(self, p, iw, ow):
        return 0

    def outs(self, p, st, iv, iw, ow):
        return [st]

    def nxt(self, p, st, iv, iw, ow):
        i = 1
        en, rs = 1, 0
        if p['en']:
            en = iv[i]
            i += 1
        if p['rs']:
            rs = iv[i]
        if rs == 1:
            return 0
        if en:
            return st ^ (iv[0] & 1)
        return st


@register
class Counter(SeqKind):
    name = 'Counter'
    weight = 2.0

    def plan(self, rng, pool):
        w = rng.choice([1, 2, 3, 4, 8, rand_width(rng, 1, 40)])
        rs = rng.random() < 0.7
        inc = rng.random() < 0.8
        ins = ([pool.pick(1)[0]] if rs else []) + ([pool.pick(1)[0]] if inc else [])
        return {'rs': rs, 'inc': inc}, ins, [w]

    def build(self, parent, nm, ins, outs, p):
        i = 0
        rs = inc = None
        if p['rs']:
            rs = ins[i]
            i += 1
        if p['inc']:
            inc = ins[i]
        return py4hw.Counter(parent, nm, rs, inc, outs[0])

    def init(self, p, iw, ow):
        return 0

    def outs(self, p, st, iv, iw, ow):
        return [st]

    def nxt(self, p, st, iv, iw, ow):
        i = 0
        rs, inc = 0, 1
        if p['rs']:
            rs = iv[i]
            i += 1
        if p['inc']:
            inc = iv[i]
        if rs & 1:
            return 0
        if inc & 1:
            return M(st + 1, ow[0])
        return st


@register
class ModuloCounter(SeqKind):
    name = 'ModuloCounter'
    weight = 2.0

    def plan(self, rng, pool):
        w = rng.choice([1, 2, 3, 4, 5, 8])
        mod = rng.choice([1, 2, 1 << w, rng.randint(1, 1 << w)])
        mod = max(1, min(mod, 1 << w))
        return {'mod': mod}, [pool.pick(1)[0], pool.pick(1)[0]], [w, 1]

    def build(self, parent, nm, ins, outs, p):
        return py4hw.ModuloCounter(parent, nm, p['mod'], ins[0], ins[1], outs[0], outs[1])

    def init(self, p, iw, ow):
        return 0

    def outs(self, p, st, iv, iw, ow):
        return [st, 1 if st == p['mod'] - 1 else 0]

    def nxt(self, p, st, iv, iw, ow):
        rs, inc = iv[0] & 1, iv[1] & 1
        if rs:
            return 0
        if inc:
            return 0 if st == p['mod'] - 1 else M(st + 1, ow[0])
        return st


@register
class StepUpCounter(SeqKind):
    name = 'StepUpCounter'

    def plan(self, rng, pool):
        w = rng.choice([2, 3, 4, 8, rand_width(rng, 1, 40)])
        return {}, [pool.pick(1)[0], pool.pick(1)[0], pool.pick(w)[0]], [w]

    def build(self, parent, nm, ins, outs, p):
        return py4hw.StepUpCounter(parent, nm, ins[0], ins[1], ins[2], outs[0])

    def init(self, p, iw, ow):
        return 0

    def outs(self, p, st, iv, iw, ow):
        return [st]

    def nxt(self, p, st, iv, iw, ow):
        if iv[0] & 1:
            return 0
        if iv[1] & 1:
            return M(st + iv[2], ow[0])
        return st


@register
class DelayLine(SeqKind):
    name = 'DelayLine'

    def plan(self, rng, pool):
        a, w = pool.any()
        en = rng.random() < 0.5
        rs = rng.random() < 0.5
        ins = [a] + ([pool.pick(1)[0]] if en else []) + ([pool.pick(1)[0]] if rs else [])
        return {'en': en, 'rs': rs, 'delay': rng.randint(1, 6)}, ins, [w]

    def build(self, parent, nm, ins, outs, p):
        i = 1
        en = rs = None
        if p['en']:
            en = ins[i]
            i += 1
        if p['rs']:
            rs = ins[i]
        return py4hw.DelayLine(parent, nm, ins[0], en, rs, outs[0], p['delay'])

    def init(self, p, iw, ow):
        return tuple([0] * p['delay'])

    def outs(self, p, st, iv, iw, ow):
        return [st[-1]]

    def nxt(self, p, st, iv, iw, ow):
        i = 1
        en, rs = 1, 0
        if p['en']:
            en = iv[i]
            i += 1
        if p['rs']:
            rs = iv[i]
        if rs == 1:
            return tuple([0] * p['delay'])
        if en:
            return (M(iv[0], ow[0]),) + st[:-1]
        return st


@register
class PipelinePhase(SeqKind):
    name = 'PipelinePhase'

    def plan(self, rng, pool):
        n = rng.randint(1, 4)
        ins, ws = [], []
        for _ in range(n):
            a, w = pool.any()
            ins.append(a)
            ws.append(w)
        return {'n': n}, [pool.pick(1)[0]] + ins, ws

    def build(self, parent, nm, ins, outs, p):
        return py4hw.PipelinePhase(parent, nm, ins[0], list(ins[1:]), list(outs))

    def init(self, p, iw, ow):
        return tuple([0] * p['n'])

    def outs(self, p, st, iv, iw, ow):
        return list(st)

    def nxt(self, p, st, iv, iw, ow):
        if iv[0] == 1:
            return tuple([0] * p['n'])
        return tuple(M(v, w) for v, w in zip(iv[1:], ow))


@register
class ShiftRegisterBidirectional(SeqKind):
    name = 'ShiftRegisterBidirectional'

    def plan(self, rng, pool):
        a, w = pool.any(1, 32)
        b, _ = pool.pick(w)
        return {'depth': rng.randint(1, 6)}, [a, b, pool.pick(1)[0], pool.pick(1)[0]], [w, w]

    def build(self, parent, nm, ins, outs, p):
        # (left_in, right_in, left_out, right_out, shift_left, shift_right, depth)
        return py4hw.ShiftRegisterBidirectional(parent, nm, ins[0], ins[1], outs[0], outs[1], ins[2], ins[3], p['depth'])

    def init(self, p, iw, ow):
        return tuple([0] * p['depth'])

    def outs(self, p, st, iv, iw, ow):
        return [st[0], st[-1]]

    def nxt(self, p, st, iv, iw, ow):
        li, ri, sl, sr = iv
        if sl & 1:      # towards the left: every cell takes its right neighbour, right_in enters
            return st[1:] + (ri,)
        if sr & 1:      # towards the right: left_in enters at cell 0
            return (li,) + st[:-1]
        return st


@register
class Stack(SeqKind):
    name = 'Stack_ShiftRegister'

    def plan(self, rng, pool):
        a, w = pool.any(1, 32)
        return {'depth': rng.randint(1, 6)}, [a, pool.pick(1)[0], pool.pick(1)[0]], [w]

    def build(self, parent, nm, ins, outs, p):
        # (din, dout, push, pop, empty, full, depth)
        return py4hw.Stack_ShiftRegister(parent, nm, ins[0], outs[0], ins[1], ins[2], None, None, p['depth'])

    def init(self, p, iw, ow):
        return (tuple([0] * p['depth']), 0)

    def outs(self, p, st, iv, iw, ow):
        return [st[1]]

    def nxt(self, p, st, iv, iw, ow):
        cells, dout = st
        din, push, pop = iv
        if pop & 1:         # pop wins over a simultaneous push; top of stack goes to dout
            return (cells[1:] + (0,), cells[0])
        if push & 1:
            return ((din,) + cells[:-1], dout)
        return st


@register
class EdgeDetector(SeqKind):
    name = 'EdgeDetector'
    mealy = True

    def plan(self, rng, pool):
        return {'dir': rng.choice(['pos', 'neg', 'both'])}, [pool.pick(1)[0]], [1]

    def build(self, parent, nm, ins, outs, p):
        return py4hw.EdgeDetector(parent, nm, ins[0], outs[0], p['dir'])

    def init(self, p, iw, ow):
        return 0

    def outs(self, p, st, iv, iw, ow):
        a = iv[0]
        if p['dir'] == 'pos':
            return [a & (1 - st)]
        if p['dir'] == 'neg':
            return [(1 - a) & st]
        return [a ^ st]

    def nxt(self, p, st, iv, iw, ow):
        return iv[0]


@register
class AutoResetSM(SeqKind):
    """py4hw.logic.clock.AutoReset: the power-up reset pulse - high after the first two edges, low from the third on"""
    name = 'AutoResetSM'

    def plan(self, rng, pool):
        return {}, [], [1]

    def build(self, parent, nm, ins, outs, p):
        from py4hw.logic.clock import AutoReset
        return AutoReset(parent, nm, outs[0])

    def init(self, p, iw, ow):
        return 0

    def outs(self, p, st, iv, iw, ow):
        return [1 if 1 <= st <= 2 else 0]

    def nxt(self, p, st, iv, iw, ow):
        return min(st + 1, 3)


@register
class ClockDivider(SeqKind):
    name = 'ClockDivider'

    def plan(self, rng, pool):
        n = rng.randint(1, 9)
        rs = rng.random() < 0.5
        return {'n': n, 'rs': rs}, ([pool.pick(1)[0]] if rs else []), [1]

    def build(self, parent, nm, ins, outs, p):
        return py4hw.ClockDivider(parent, nm, 2 * p['n'] * 1000, 1000, outs[0], reset=ins[0] if p['rs'] else None)

    def init(self, p, iw, ow):
        return (0, 0)

    def outs(self, p, st, iv, iw, ow):
        return [st[1]]

    def nxt(self, p, st, iv, iw, ow):
        cnt, clk = st
        if p['rs'] and iv[0] == 1:
            return (0, 0)
        if cnt == p['n'] - 1:
            return (0, clk ^ 1)
        return (cnt + 1, clk)


@register
class SynchronousMemory(SeqKind):
    name = 'SynchronousMemory'

    def plan(self, rng, pool):
        aw = rng.randint(1, 4)
        dw = rng.choice([1, 4, 8, rand_width(rng, 1, 40)])
        return {}, [pool.pick(aw)[0], pool.pick(aw)[0], pool.pick(1)[0], pool.pick(dw)[0]], [dw]

    def build(self, parent, nm, ins, outs, p):
        # (read_address, write_address, write, readdata, writedata)
        return py4hw.SynchronousMemory(parent, nm, ins[0], ins[1], ins[2], outs[0], ins[3])

    def init(self, p, iw, ow):
        return (tuple([0] * (1 << iw[0])), 0)

    def outs(self, p, st, iv, iw, ow):
        return [st[1]]

    def nxt(self, p, st, iv, iw, ow):
        mem, rd = st
        ra, wa, we, wd = iv
        rd = M(mem[ra], ow[0])          # read returns the content before a same-cycle write
        if we:
            mem = mem[:wa] + (wd,) + mem[wa + 1:]
        return (mem, rd)


@register
class Sequence(SeqKind):
    name = 'Sequence'
    tags = ('seq', 'simonly')
    weight = 0.5

    def plan(self, rng, pool):
        w = rand_width(rng)
        n = rng.randint(1, 6)
        return {'values': [rng.getrandbits(w) for _ in range(n)], 'once': rng.random() < 0.3}, [], [w]

    def build(self, parent, nm, ins, outs, p):
        return py4hw.Sequence(parent, nm, list(p['values']), outs[0], once=p['once'])

    def init(self, p, iw, ow):
        return (0, 0)

    def outs(self, p, st, iv, iw, ow):
        return [st[1]]

    def nxt(self, p, st, iv, iw, ow):
        i, _ = st
        vals = p['values']
        v = M(vals[i], ow[0])
        if p['once']:
            i = min(i + 1, len(vals) - 1)
        else:
            i = (i + 1) % len(vals)
        return (i, v)


def kinds_with(tag=None, seq=None, exclude=(), include=None):
    out = []
    for k in KINDS.values():
        if tag is not None and tag not in k.tags:
            continue
        if seq is not None and k.seq != seq:
            continue
        if any(t in k.tags for t in exclude):
            continue
        if 'extra' in k.tags and tag is None and 'extra' not in (include or ()):
            continue        # extra kinds only on request (include=('extra',)) or through one of their own tags
        if 'manual' in k.tags and tag is None:
            continue        # placed by a check itself, never drawn
        out.append(k)
    return out


@register
class DualPortSynchronousMemory(SeqKind):
    name = 'DualPortSynchronousMemory'
    tags = ('c09', 'seq', 'noverilog')
    weight = 0.7

    def plan(self, rng, pool):
        aw = rng.randint(1, 3)
        dw = rng.choice([1, 4, 8, rand_width(rng, 1, 40)])
        ins = [pool.pick(aw)[0], pool.pick(aw)[0], pool.pick(1)[0], pool.pick(dw)[0],
               pool.pick(aw)[0], pool.pick(aw)[0], pool.pick(1)[0], pool.pick(dw)[0]]
        # the two read ports need not have the width of the stored words (a narrower port shows the low bits)
        dwb = dw if (dw < 3 or rng.random() < 0.75) else rng.randint(1, dw - 1)
        return {}, ins, [dw, dwb]

    def build(self, parent, nm, ins, outs, p):
        # (read_address_a, write_address_a, write_a, readdata_a, writedata_a, read_address_b, ...)
        return py4hw.DualPortSynchronousMemory(parent, nm, ins[0], ins[1], ins[2], outs[0], ins[3],
                                               ins[4], ins[5], ins[6], outs[1], ins[7])

    def init(self, p, iw, ow):
        return (tuple([0] * (1 << iw[0])), 0, 0, False)

    def outs(self, p, st, iv, iw, ow):
        if st[3]:
            return [None, None]
        return [st[1], st[2]]

    def nxt(self, p, st, iv, iw, ow):
        mem, ra_, rb_, bad = st
        ra, wa, wea, wda, rb, wb, web, wdb = iv
        qa, qb = M(mem[ra], ow[0]), M(mem[rb], ow[1])
        if wea and web and wa == wb and wda != wdb:
            bad = True          # two ports writing different data to one cell: not specified
        if wea:
            mem = mem[:wa] + (wda,) + mem[wa + 1:]
        if web:
            mem = mem[:wb] + (wdb,) + mem[wb + 1:]
        return (mem, qa, qb, bad)


# =========================================================================== extra kinds (Verilog-side campaigns only)

@register
class MsgSequencer(SeqKind):
    """uart message sequencer with a hand-written Verilog body"""
    name = 'MsgSequencer'
    tags = ('seq', 'extra')

    def plan(self, rng, pool):
        n = rng.randint(2, 6)
        return {'msg': ''.join(chr(rng.randint(32, 126)) for _ in range(n))}, [pool.pick(1)[0]], [1, 8]

    def build(self, parent, nm, ins, outs, p):
        from py4hw.logic.protocol.uart.sequencer import MsgSequencer as M_
        return M_(parent, nm, ins[0], outs[0], outs[1], p['msg'])

    def init(self, p, iw, ow):
        return (0, 0, 0, 0)          # state, count, valid, v

    def outs(self, p, st, iv, iw, ow):
        return [st[2], st[3]]

    def nxt(self, p, st, iv, iw, ow):
        state, count, valid, v = st
        ready = iv[0]
        if state == 0:
            if ready:
                return (1, count, 1, v)
            return (0, count, 0, v)
        v = ord(p['msg'][count])
        if ready == 0:               # "if ready was deactivated wait here"
            return (1, count, 1, v)
        return (0, (count + 1) % len(p['msg']), 0, v)


@register
class AsynchronousMemory(Kind):
    """stateful propagatable; only built (Verilog-side campaigns), no reference model"""
    name = 'AsynchronousMemory'
    tags = ('extra', 'asyncmem')
    stateless = False

    def plan(self, rng, pool):
        aw = rng.randint(1, 3)
        dw = rng.choice([1, 4, 8])
        return {}, [pool.pick(aw)[0], pool.pick(aw)[0], pool.pick(1)[0], pool.pick(dw)[0]], [dw]

    def build(self, parent, nm, ins, outs, p):
        return py4hw.AsynchronousMemory(parent, nm, ins[0], ins[1], ins[2], outs[0], ins[3])

    def outs(self, p, st, iv, iw, ow):
        raise NotImplementedError('AsynchronousMemory has no reference model')


# --- large structural library blocks without a catalogue model (their functions are checked in C13/C14);
#     used where the oracle is another real system (C04 twin, C01 co-simulation)

def _fpkind(name, nin, outw, mk):
    class G(Kind):
        pass
    G.name = name
    G.tags = ('extra', 'big')
    G.weight = 0.3

    def plan(self, rng, pool):
        return {}, [pool.pick(32)[0] for _ in range(nin)], list(outw)

    def build(self, parent, nm, ins, outs, p):
        return mk(parent, nm, ins, outs)

    def outs(self, p, st, iv, iw, ow):
        raise NotImplementedError('%s has no catalogue model' % name)
    G.plan, G.build, G.outs = plan, build, outs
    register(G)


_fpkind('FPAdder_SP', 2, [32], lambda p, n, i, o: py4hw.FPAdder_SP(p, n, i[0], i[1], o[0]))
_fpkind('FPMult_SP', 2, [32], lambda p, n, i, o: py4hw.FPMult_SP(p, n, i[0], i[1], o[0]))
_fpkind('FPComparator_SP', 2, [1, 1, 1], lambda p, n, i, o: py4hw.FPComparator_SP(p, n, i[0], i[1], o[0], o[1], o[2]))
_fpkind('InttoFP_SP', 1, [32, 1], lambda p, n, i, o: py4hw.InttoFP_SP(p, n, i[0], o[0], o[1]))
_fpkind('FPtoInt_SP', 1, [32, 1, 1, 1], lambda p, n, i, o: py4hw.FPtoInt_SP(p, n, i[0], o[0], o[1], o[2], o[3]))


class _DefaultOverrideBlock(py4hw.Logic):
    """a user-written clocked block in default-then-override style: the output is prepared twice in one edge
    (py4hw prints a warning and keeps the last value)"""

    def __init__(self, parent, name, a, r, k):
        super().__init__(parent, name)
        self.a = self.addIn('a', a)
        self.r = self.addOut('r', r)
        self.k = k

    def clock(self):
        self.r.prepare(0)
        self.r.prepare(self.a.get() - self.k)


@register
class DefaultOverride(SeqKind):
    name = 'DefaultOverride'
    tags = ('seq', 'extra', 'simonly', 'userblock')
    weight = 0.6

    def plan(self, rng, pool):
        a, w = pool.any(1, 40)
        return {'k': rng.choice([0, 1, 3, 1 << w, (1 << (w + 3)) + 5])}, [a], [rng.choice([w, max(1, w - 2), w + 1])]

    def build(self, parent, nm, ins, outs, p):
        return _DefaultOverrideBlock(parent, nm, ins[0], outs[0], p['k'])

    def init(self, p, iw, ow):
        return 0

    def outs(self, p, st, iv, iw, ow):
        return [st]

    def nxt(self, p, st, iv, iw, ow):
        return M(iv[0] - p['k'], ow[0])


class _ShiftLane(py4hw.Logic):
    """plain structural helper without Verilog parameters of its own: r = ~(a << n)"""

    def __init__(self, parent, name, a, r, n):
        super().__init__(parent, name)
        self.addIn('a', a)
        self.addOut('r', r)
        t = self.wire('t', a.getWidth())
        py4hw.ShiftLeftConstant(self, 'sh', a, n, t)
        py4hw.Not(self, 'inv', t, r)


class _ParamShifter(py4hw.Logic):
    """a block with a Verilog parameter SHIFT that it uses in a constant shifter of its own and hands on, by reference, to a
    constant shifter inside a helper sub-block: r0 = a >> SHIFT, r1 = ~(a << SHIFT)"""

    def __init__(self, parent, name, a, r0, r1, shift):
        super().__init__(parent, name)
        self.addIn('a', a)
        self.addOut('r0', r0)
        self.addOut('r1', r1)
        self.addParameter('SHIFT', shift)
        py4hw.ShiftRightConstant(self, 'sh', a, self.getParameter('SHIFT'), r0)
        _ShiftLane(self, 'lane', a, r1, self.getParameter('SHIFT'))


@register
class ParamShifter(Kind):
    name = 'ParamShifter'
    tags = ('extra', 'userblock', 'paramshift')
    weight = 0.8

    def plan(self, rng, pool):
        a, w = pool.any(2, 32)
        return {'shift': rng.randint(0, w)}, [a], [w, w]

    def build(self, parent, nm, ins, outs, p):
        return _ParamShifter(parent, nm, ins[0], outs[0], outs[1], p['shift'])

    def outs(self, p, st, iv, iw, ow):
        return [M(iv[0] >> p['shift'], ow[0]), M(~M(iv[0] << p['shift'], iw[0]), ow[1])]


class _Thrower(py4hw.Logic):
    """a checker block: its clock() raises when the input is 1 (an assertion of the user, a Ctrl-C landing there)"""

    def __init__(self, parent, name, fire, r):
        super().__init__(parent, name)
        self.fire = self.addIn('fire', fire)
        self.r = self.addOut('r', r)

    def clock(self):
        if self.fire.get():
            raise RuntimeError('checker fired')
        self.r.prepare(0)


@register
class Thrower(SeqKind):
    name = 'Thrower'
    tags = ('seq', 'extra', 'simonly', 'userblock', 'manual')

    def plan(self, rng, pool):
        return {}, [pool.new_input(1)[0]], [1]

    def build(self, parent, nm, ins, outs, p):
        return _Thrower(parent, nm, ins[0], outs[0])

    def init(self, p, iw, ow):
        return 0

    def outs(self, p, st, iv, iw, ow):
        return [0]

    def nxt(self, p, st, iv, iw, ow):
        return 0


class _StopBlock(py4hw.Logic):
    """a clocked bench block that ends the run from inside its clock() method (a break point on a condition): when its own
    edge counter reaches `at` it asks the simulator of its system to stop"""

    def __init__(self, parent, name, a, r):
        super().__init__(parent, name)
        self.a = self.addIn('a', a)
        self.r = self.addOut('r', r)
        self.edges = 0
        self._at = None

    def clock(self):
        self.edges += 1
        if self._at is not None and self.edges == self._at:
            top = self
            while top.parent is not None:
                top = top.parent
            top.getSimulator().stop()
        self.r.prepare(self.a.get())


@register
class StopBlock(SeqKind):
    name = 'StopBlock'
    tags = ('seq', 'extra', 'simonly', 'userblock', 'manual', 'simpeek')

    def plan(self, rng, pool):
        a, w = pool.any()
        return {}, [a], [w]

    def build(self, parent, nm, ins, outs, p):
        return _StopBlock(parent, nm, ins[0], outs[0])

    def init(self, p, iw, ow):
        return 0

    def outs(self, p, st, iv, iw, ow):
        return [st]

    def nxt(self, p, st, iv, iw, ow):
        return M(iv[0], ow[0])


class _TernaryReg(py4hw.Logic):
    """behavioural register with a conditional expression: r <= a if s else b"""

    def __init__(self, parent, name, s, a, b, r):
        super().__init__(parent, name)
        self.s = self.addIn('s', s)
        self.a = self.addIn('a', a)
        self.b = self.addIn('b', b)
        self.r = self.addOut('r', r)

    def clock(self):
        v = self.a.get() if self.s.get() else self.b.get()
        self.r.prepare(v)


class _PresetCounter(py4hw.Logic):
    """behavioural counter whose constructor writes its state attribute twice: a default first, the preset afterwards"""

    def __init__(self, parent, name, inc, q):
        super().__init__(parent, name)
        self.inc = self.addIn('inc', inc)
        self.q = self.addOut('q', q)
        self.count = 0
        self.count = 5

    def clock(self):
        if self.inc.get() == 1:
            self.count = (self.count + 1) & 255
        self.q.prepare(self.count)


@register
class PresetCounter(SeqKind):
    name = 'PresetCounter'
    tags = ('seq', 'extra', 'userblock', 'transpiled')
    weight = 0.6

    def plan(self, rng, pool):
        return {}, [pool.pick(1)[0]], [rng.choice([8, 8, 4, 12])]

    def build(self, parent, nm, ins, outs, p):
        return _PresetCounter(parent, nm, ins[0], outs[0])

    def init(self, p, iw, ow):
        return (5, 0)

    def outs(self, p, st, iv, iw, ow):
        return [st[1]]

    def nxt(self, p, st, iv, iw, ow):
        c = (st[0] + 1) & 255 if iv[0] == 1 else st[0]
        return (c, M(c, ow[0]))


class _TernaryInCall(py4hw.Logic):
    """a block the transpiler refuses: a conditional expression as the argument of a call"""

    def __init__(self, parent, name, s, r):
        super().__init__(parent, name)
        self.s = self.addIn('s', s)
        self.r = self.addOut('r', r)

    def clock(self):
        self.r.prepare(1 if self.s.get() else 0)


@register
class TernaryReg(SeqKind):
    name = 'TernaryReg'
    tags = ('seq', 'extra', 'userblock', 'transpiled', 'ternary')
    weight = 0.8

    def plan(self, rng, pool):
        a, w = pool.any(1, 31)
        return {}, [pool.pick(1)[0], a, pool.pick(w)[0]], [w]

    def build(self, parent, nm, ins, outs, p):
        return _TernaryReg(parent, nm, ins[0], ins[1], ins[2], outs[0])

    def init(self, p, iw, ow):
        return 0

    def outs(self, p, st, iv, iw, ow):
        return [st]

    def nxt(self, p, st, iv, iw, ow):
        return M(iv[1] if iv[0] else iv[2], ow[0])


class _PickyInc(py4hw.Logic):
    """a user block that validates its input: r = a + 1, but the value `bad` is refused with an exception"""

    def __init__(self, parent, name, a, r, bad):
        super().__init__(parent, name)
        self.a = self.addIn('a', a)
        self.r = self.addOut('r', r)
        self.bad = bad

    def propagate(self):
        v = self.a.get()
        if v == self.bad:
            raise ValueError('input value {} is not allowed'.format(v))
        self.r.put(v + 1)


@register
class PickyInc(Kind):
    name = 'PickyInc'
    tags = ('extra', 'simonly', 'userblock', 'picky', 'manual')

    def plan(self, rng, pool):
        w = rng.choice([2, 4, 8])
        a = pool.new_input(w)[0]
        return {'bad': (1 << w) - 1}, [a], [w]

    def build(self, parent, nm, ins, outs, p):
        return _PickyInc(parent, nm, ins[0], outs[0], p['bad'])

    def outs(self, p, st, iv, iw, ow):
        return [M(iv[0] + 1, ow[0])]


class _MooreAcc(py4hw.Logic):
    """a user block with both methods: clock() updates a state attribute from the pre-edge input, propagate() shows the
    state on the output (a Moore machine whose output wire is not written at the edge itself)"""

    def __init__(self, parent, name, a, r):
        super().__init__(parent, name)
        self.a = self.addIn('a', a)
        self.r = self.addOut('r', r)
        self.acc = 0

    def clock(self):
        self.acc = (self.acc + self.a.get() + 1) & ((1 << self.r.getWidth()) - 1)

    def propagate(self):
        self.r.put(self.acc)


@register
class MooreAcc(SeqKind):
    name = 'MooreAcc'
    tags = ('seq', 'extra', 'simonly', 'userblock', 'moore_propagate')
    weight = 0.8
    mealy = True          # to the library's sorter every block with propagate() is combinational from all its inputs
    stateless = False

    def plan(self, rng, pool):
        a, w = pool.any(1, 32)
        return {}, [a], [rng.choice([w, w, max(1, w - 1), w + 2])]

    def build(self, parent, nm, ins, outs, p):
        return _MooreAcc(parent, nm, ins[0], outs[0])

    def init(self, p, iw, ow):
        return 0

    def outs(self, p, st, iv, iw, ow):
        return [st]

    def nxt(self, p, st, iv, iw, ow):
        return M(st + iv[0] + 1, ow[0])


class _StepAdd(py4hw.Logic):
    """behavioural leaf with a Verilog parameter: r <= a + STEP"""

    def __init__(self, parent, name, a, r, step):
        super().__init__(parent, name)
        self.a = self.addIn('a', a)
        self.r = self.addOut('r', r)
        self.addParameter('STEP', step)

    def clock(self):
        self.r.prepare(self.a.get() + self.getParameterValue('STEP'))


class _ParamScaler(py4hw.Logic):
    """parameterised structural block; one Verilog module per width is shared by all instances, the first child inherits
    the parameter of its parent by reference (Logic.getParameter), the second has a literal one"""

    def __init__(self, parent, name, a, r, step):
        super().__init__(parent, name)
        self.addIn('a', a)
        self.addOut('r', r)
        self.addParameter('STEP', step)
        m = self.wire('m', a.getWidth())
        _StepAdd(self, 'first', a, m, self.getParameter('STEP'))
        _StepAdd(self, 'second', m, r, 1)

    def structureName(self):
        return 'ParamScaler{}_{}'.format(self.inPorts[0].wire.getWidth(), self.outPorts[0].wire.getWidth())


class _ParamScalerPair(py4hw.Logic):
    """one more level: the parameter is forwarded by reference twice (this block -> scaler -> leaf)"""

    def __init__(self, parent, name, a, r, step):
        super().__init__(parent, name)
        self.addIn('a', a)
        self.addOut('r', r)
        self.addParameter('STEP', step)
        _ParamScaler(self, 'inner', a, r, self.getParameter('STEP'))

    def structureName(self):
        return 'ParamScalerPair{}_{}'.format(self.inPorts[0].wire.getWidth(), self.outPorts[0].wire.getWidth())


@register
class ParamScaler(SeqKind):
    name = 'ParamScaler'
    tags = ('seq', 'extra', 'userblock', 'transpiled', 'shared', 'param')
    weight = 0.8

    def plan(self, rng, pool):
        a, w = pool.any(2, 31)
        return {'step': rng.choice([0, 1, 2, 5, 9, 200]), 'deep': rng.random() < 0.3}, [a], [rng.choice([w, w, max(1, w - 1), w + 2])]

    def build(self, parent, nm, ins, outs, p):
        obj = (_ParamScalerPair if p.get('deep') else _ParamScaler)(parent, nm, ins[0], outs[0], p['step'])
        # whatever the number of levels a parameter is forwarded through, its value is the number given at the top
        stack = [obj]
        while stack:
            o = stack.pop()
            stack.extend(o.children.values())
            for pn in (o.getParameterNames() or []):
                v = o.getParameterValue(pn)
                if v != p['step'] and not (o.name == 'second' and v == 1):
                    from .core import Violation
                    raise Violation('sut-exception', 'param:unresolved', 0, '%s.getParameterValue(%r) returned %r, the value given at the top is %r' % (
                        o.getFullPath(), pn, v, p['step']))
        return obj

    def init(self, p, iw, ow):
        return (0, 0)

    def outs(self, p, st, iv, iw, ow):
        return [st[1]]

    def nxt(self, p, st, iv, iw, ow):
        return (M(iv[0] + p['step'], iw[0]), M(st[0] + 1, ow[0]))


# --- behavioural library blocks that reach the Python-to-Verilog transpiler (no catalogue model: used where the oracle is
#     another real system - C19 twin, C01 co-simulation)

def _trkind(name, inw, outw, mk):
    class G(Kind):
        pass
    G.name = name
    G.seq = True
    G.mealy = False
    G.stateless = False
    G.tags = ('extra', 'seq', 'transpiled')
    G.weight = 0.5

    def plan(self, rng, pool):
        return {}, [pool.pick(w)[0] for w in inw], list(outw)

    def build(self, parent, nm, ins, outs, p):
        return mk(parent, nm, ins, outs)

    def outs(self, p, st, iv, iw, ow):
        raise NotImplementedError('%s has no catalogue model' % name)
    G.plan, G.build, G.outs = plan, build, outs
    register(G)


def _lib(mod, cls):
    import importlib
    return getattr(importlib.import_module(mod), cls)


_trkind('AutoReset', [], [1], lambda p, n, i, o: _lib('py4hw.logic.clock', 'AutoReset')(p, n, o[0]))
_trkind('ClockSyncFSM', [1, 1], [1, 1], lambda p, n, i, o: _lib('py4hw.logic.protocol.uart.clock', 'ClockSyncFSM')(p, n, i[0], i[1], o[0], o[1]))
_trkind('Axi2ClkFSM', [1, 8, 1], [64, 1, 1], lambda p, n, i, o: _lib('py4hw.emulation.vitiswrapping', 'Axi2ClkFSM')(p, n, i[0], i[1], i[2], o[0], o[1], o[2]))
_trkind('VitisKernelFSM', [1, 1, 1, 1], [1, 1, 1], lambda p, n, i, o: _lib('py4hw.emulation.vitiswrapping', 'VitisKernelFSM')(p, n, i[0], i[1], o[0], o[1], o[2], i[2], i[3]))
_trkind('UARTSerializer', [1, 8, 1], [1, 1], lambda p, n, i, o: _lib('py4hw.logic.protocol.uart.serdes', 'UARTSerializer')(p, n, o[0], i[0], i[1], i[2], o[1]))


class _IfaceIncBlock(py4hw.Logic):
    """a user-written combinational primitive whose input arrives through an Interface (addInterfaceSink)"""

    def __init__(self, parent, name, iface, r):
        super().__init__(parent, name)
        self.iface = self.addInterfaceSink('', iface)
        self.r = self.addOut('r', r)

    def propagate(self):
        self.r.put(self.iface.data.get() + 1)


class _OneWireInterface(py4hw.Interface):
    """interface made of one existing source-to-sink wire"""

    def __init__(self, parent, name, wire):
        super().__init__(parent, name)
        self.data = wire
        self.sourceToSink.append(['data', wire])


@register
class IfaceInc(Kind):
    name = 'IfaceInc'
    tags = ('extra', 'simonly', 'userblock', 'ifaceport')
    weight = 0.8

    def plan(self, rng, pool):
        a, w = pool.any(1, 40)
        return {}, [a], [w]

    def build(self, parent, nm, ins, outs, p):
        return _IfaceIncBlock(parent, nm, _OneWireInterface(parent, nm + '_if', ins[0]), outs[0])

    def outs(self, p, st, iv, iw, ow):
        return [M(iv[0] + 1, ow[0])]


class _FlexParity(py4hw.Logic):
    """r = parity of a.  One class, two flavours per instance: built from library gates, or a behavioural propagate()
    bound to the instance before the ports are declared.  (Binding it after the ports - the idiom of
    py4hw.emulation.verilatorwrapping.create_wrapper for clock() - is not used: ports declared while the object is not
    yet a primitive are not registered on their wires, so the sorter cannot see them; a limitation, not a C04 claim.)"""

    def __init__(self, parent, name, a, r, flavour):
        super().__init__(parent, name)
        if flavour == 'early':
            self.propagate = self.behavioural
        self.a = self.addIn('a', a)
        self.r = self.addOut('r', r)
        if flavour == 'gates':
            if a.getWidth() == 1:
                py4hw.Buf(self, 'buf', a, r)
            else:
                bits = self.wires('b', a.getWidth(), 1)
                py4hw.BitsLSBF(self, 'bits', a, bits)
                py4hw.Xor(self, 'xor', bits, r)
        elif flavour == 'late':
            self.propagate = self.behavioural

    def behavioural(self):
        self.r.put(bin(self.a.get()).count('1') & 1)


@register
class FlexParity(Kind):
    name = 'FlexParity'
    tags = ('extra', 'simonly', 'userblock', 'perinst')
    weight = 1.2

    def plan(self, rng, pool):
        a, w = pool.any(1, 24)
        return {'flavour': rng.choice(['gates', 'early'])}, [a], [1]

    def build(self, parent, nm, ins, outs, p):
        return _FlexParity(parent, nm, ins[0], outs[0], p['flavour'])

    def outs(self, p, st, iv, iw, ow):
        return [bin(iv[0]).count('1') & 1]


@register
class DelayLineZero(SeqKind):
    """DelayLine with delay=0: a legal degenerate configuration, the input is passed through combinationally"""
    name = 'DelayLineZero'
    mealy = True
    weight = 0.4

    def plan(self, rng, pool):
        a, w = pool.any()
        en = rng.random() < 0.5
        rs = rng.random() < 0.5
        ins = [a] + ([pool.pick(1)[0]] if en else []) + ([pool.pick(1)[0]] if rs else [])
        return {'en': en, 'rs': rs}, ins, [w]

    def build(self, parent, nm, ins, outs, p):
        i = 1
        en = rs = None
        if p['en']:
            en = ins[i]
            i += 1
        if p['rs']:
            rs = ins[i]
        return py4hw.DelayLine(parent, nm, ins[0], en, rs, outs[0], 0)

    def init(self, p, iw, ow):
        return 0

    def outs(self, p, st, iv, iw, ow):
        return [M(iv[0], ow[0])]

    def nxt(self, p, st, iv, iw, ow):
        return 0


class _SimPeekBlock(py4hw.Logic):
    """a user-written monitor that asks its system for the simulator from inside clock() (e.g. to read the cycle
    count or to stop the run on a condition); the output registers its input like a Reg"""

    def __init__(self, parent, name, a, r):
        super().__init__(parent, name)
        self.a = self.addIn('a', a)
        self.r = self.addOut('r', r)

    def clock(self):
        top = self
        while top.parent is not None:
            top = top.parent
        sim = top.getSimulator()
        cycles = sim.total_clks        # (only looked at)
        self.r.prepare(self.a.get())


@register
class SimPeek(SeqKind):
    name = 'SimPeek'
    tags = ('seq', 'extra', 'simonly', 'userblock', 'simpeek')
    weight = 0.8

    def plan(self, rng, pool):
        a, w = pool.any()
        return {}, [a], [w]

    def build(self, parent, nm, ins, outs, p):
        return _SimPeekBlock(parent, nm, ins[0], outs[0])

    def init(self, p, iw, ow):
        return 0

    def outs(self, p, st, iv, iw, ow):
        return [st]

    def nxt(self, p, st, iv, iw, ow):
        return M(iv[0], ow[0])

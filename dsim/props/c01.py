"""C01 - generated Verilog behaves exactly like the simulated structural design.

Differential co-simulation of two simulators under seeded schedules: the real py4hw cycle
simulator (instantiation order and children order permuted) against vsim, an IEEE 1364 event
simulator executing the emitted text with a PRNG-chosen order of active events and of
non-blocking updates between processes (fault `vsched`); every 8th cycle is re-executed
under 4 further IEEE-legal orders - two legal orders disagreeing means the text has a race.
Outputs are compared at power-up and after every edge; an x bit on the Verilog side is a
mismatch.  A mismatch that disappears when uninitialised Verilog storage powers up as 0
carries the signature suffix `uninit-storage`.
"""
import random

import py4hw

from ..core import Violation, shrink_list, h64, known_findings
from .. import seams, netlist
from ..catalog import KINDS, kinds_with
from ..seams import quiet
from .. import vsim

PROP = 'C01'
TIERS = {'quick': 2100, 'thorough': 75000}
RULE = ('each run: a seeded design of 3-40 library blocks (every inlined emitter, Reg body with all option combinations, '
        'hand-written memory body, blocks shared through structureName with equal and unequal parameters, per-instance '
        'modules), hierarchy depth 0-3, widths 1-70, 10-60 cycles of boundary-biased vectors from power-up; non-trivial = '
        'text was generated, elaborated, >= 1 output took >= 2 values and the Verilog scheduler had >= 1 real ordering '
        'choice; distinct = distinct run digests; distinct_schedules = distinct Verilog event-order seeds that led to '
        'ordering choices')
REAL = ['py4hw.rtl_generation.VerilogGenerator (inline emitters, BodyReg, verilogBody blocks, module naming)', 'py4hw cycle simulator', 'library blocks']
STUB = ['Verilog side: dsim/vsim (IEEE 1364-2005 subset event simulator written for this task) executes the emitted text',
        'testbench (inputs change while clk is low)']
ASSUMPTIONS = ['vsim reading of IEEE 1364-2005 sizing, x-propagation and scheduling (see dsim/vsim/README.md, selftest)',
               'single clock domain; divisors of Div/Mod are OR-ed with 1 (division by zero is documented as nondeterministic)',
               'designs containing rotate blocks are not emittable (generator refuses) and are kept out']
PROBES = ['underscore_names', 'reserved_names', 'generated_after_simulation', 'generated', 'elaborated', 'shared_module_reused', 'reg_reset_value', 'memory_body', 'race_probe', 'hierarchy', 'wide_gt_64', 'transpiled_block']


def emittable_kinds():
    kf = known_findings()
    comb = [k for k in kinds_with(seq=False, include=('extra',)) if 'rot' not in k.tags]
    seqk = [k for k in kinds_with(seq=True, include=('extra',)) if 'simonly' not in k.tags]
    if kf.excluded('asyncmem-verilog-body'):
        comb = [k for k in comb if k.name != 'AsynchronousMemory']
    if kf.excluded('dualport-verilog-body'):
        seqk = [k for k in seqk if k.name != 'DualPortSynchronousMemory']
    return comb, seqk


def gen(rs, tier, index):
    kf = known_findings()
    rng = rs.get('design')
    comb, seqk = emittable_kinds()
    if kf.excluded('verilog-memory-uninitialised'):
        seqk = [k for k in seqk if k.name != 'SynchronousMemory']
    n = rng.choice([3, 5, 8, 14, 24]) if tier == 'quick' else rng.choice([5, 12, 24, 40])
    d = netlist.gen_design(rng, n, comb, hier_depth=rng.choice([0, 0, 1, 2, 3]), feedback=rng.choice([0, 0.2]),
                           seq_kinds=seqk, seq_frac=rng.choice([0, 0.2, 0.4]), maxw=70, big=rng.random() < 0.008)
    apply_exclusions(d, kf, rng)
    if rng.random() < 0.12:
        netlist.underscore_names(d, rs.get('naming'))
    elif rng.random() < 0.2:
        # naming: reserved words as wire / port / instance names (the generator renames them; behaviour must not change)
        RES = ['reg', 'wire', 'output', 'input', 'signed', 'module', 'begin', 'end', 'assign', 'always', 'integer', 'logic', 'bit']
        nr = rs.get('naming')
        sigs = sorted(netlist.sig_widths(d))
        names, inst = {}, {}
        for wname in nr.sample(RES, nr.randint(1, 4)):
            if nr.random() < 0.7:
                names[nr.choice(sigs)] = wname
            elif d['nodes']:
                inst[str(nr.choice(d['nodes'])['id'])] = wname
        # one name per signal, one signal per name
        seen = set()
        d['names'] = {r: n_ for r, n_ in names.items() if not (n_ in seen or seen.add(n_))}
        d['inst_names'] = inst
    order = list(d['order'])
    if rng.random() < 0.5:
        rng.shuffle(order)
    sr = rs.get('stimulus')
    steps = []
    prev = None
    for _ in range(sr.choice([10, 20, 40]) if tier == 'quick' else sr.choice([20, 60])):
        vec = netlist.gen_vector(sr, d['inputs'], prev)
        prev = vec
        steps.append({'vec': vec})
    # generation after simulation: the text must still describe the circuit from power-up
    presim = [netlist.gen_vector(sr, d['inputs']) for _ in range(sr.choice([0, 0, 0, 1, 3]))]
    return {'design': d, 'order': order, 'perm': rs.sub('perm') if rng.random() < 0.4 else None,
            'steps': steps, 'vseed': rs.sub('vsched'), 'presim': presim}


SHARED_KINDS = ('Add', 'BufEnable')      # emitted once per structureName(), body uses parent-scope wire names


def port_alias_nodes(d):
    """nodes of a shared-module kind with two input ports on one signal"""
    return [nd for nd in d['nodes'] if nd['kind'] in SHARED_KINDS and len(set(nd['ins'])) < len(nd['ins'])]


def apply_exclusions(d, kf, rng):
    """narrow domain predicates of open findings (see known_findings.json)"""
    if kf.excluded('onehotmux-repeated-wire'):
        sigw = netlist.sig_widths(d)
        for nd in d['nodes']:
            if nd['kind'] == 'OneHotMux':
                seen = set()
                for j, r in enumerate(nd['ins']):
                    if r in seen:
                        nm = 'i%d' % len(d['inputs'])
                        d['inputs'].append({'name': nm, 'w': sigw[r]})
                        nd['ins'][j] = nm
                    seen.add(nd['ins'][j])
    if kf.excluded('shared-module-port-alias'):
        for nd in port_alias_nodes(d):
            seen = set()
            sigw = netlist.sig_widths(d)
            for j, r in enumerate(nd['ins']):
                if r in seen:
                    nm = 'i%d' % len(d['inputs'])
                    d['inputs'].append({'name': nm, 'w': sigw[r]})
                    nd['ins'][j] = nm
                seen.add(nd['ins'][j])


def alias_objects(root):
    """objects emitted under a shared module name (structureName) with two input ports on one wire -
    the exact domain of KF-C01-1, judged on the real hierarchy (also inside library blocks)"""
    out = []
    for o in seams.walk(root):
        if hasattr(o, 'structureName') and o.children:
            ws = [id(p.wire) for p in o.inPorts if p.wire is not None]
            if len(set(ws)) < len(ws):
                out.append(o)
    return out


def predicates(d):
    """parameter predicates that go into a violation signature (DESIGN 2.7)"""
    try:
        b = netlist.Built(d).build()
        return ':port-alias' if alias_objects(b.dut) else ''
    except Exception:
        return ':port-alias' if port_alias_nodes(d) else ''


def cosim(scn, log, st, zero_powerup=False, collect_all=False):
    d = scn['design']
    b = netlist.Built(d).build(scn['order'])
    if scn.get('perm') is not None:
        seams.perm_children(b.hw, random.Random(scn['perm']), st)
    kinds = [n['kind'] for n in d['nodes']]
    if any(n['grp'] for n in d['nodes']):
        st.probe('hierarchy')
    if any(w > 64 for w in netlist.sig_widths(d).values()):
        st.probe('wide_gt_64')
    if any(n['kind'] == 'Reg' and n['p'].get('rv') for n in d['nodes']):
        st.probe('reg_reset_value')
    if 'SynchronousMemory' in kinds:
        st.probe('memory_body')
    if any('transpiled' in KINDS[k].tags for k in kinds):
        st.probe('transpiled_block')
    for kn in ('Add', 'Abs', 'Neg', 'Sign', 'BufEnable', 'Reg'):
        if kinds.count(kn) >= 2:
            st.probe('shared_module_reused')
            break
    if known_findings().excluded('shared-module-port-alias') and alias_objects(b.dut) and not scn.get('allow_alias'):
        st.probe('skipped_open_finding_domain')      # KF-C01-1: replayed from its reproducer instead
        log.add('skipped: shared-module port alias')
        return None
    if scn.get('presim'):
        # the circuit the text is generated from has already been simulated; the reference side is a second,
        # never-simulated instance of the same description stepped from power-up
        with quiet():
            psim = b.hw.getSimulator()
            for vec in scn['presim']:
                b.set_inputs(vec)
                psim.clk(1)
        st.probe('generated_after_simulation')
        gen_from = b
        b = netlist.Built(d).build(scn['order'])
        if scn.get('perm') is not None:
            seams.perm_children(b.hw, random.Random(scn['perm']))
    else:
        gen_from = b
    try:
        with quiet():
            text = py4hw.VerilogGenerator(gen_from.dut).getVerilogForHierarchy()
    except Exception as e:
        st.probe('generation_refused')
        log.add('generation refused', type(e).__name__)
        return None
    st.probe('generated')
    try:
        mods = vsim.parse(text)
        design = vsim.elaborate(mods, 'Dut')
    except (vsim.VParseError, vsim.VElabError) as e:
        st.probe('elab_failed')          # a C03 matter; no C01 obligation for text that does not elaborate
        log.add('elab failed', getattr(e, 'rule', '?'))
        return None
    st.probe('elaborated')
    import py4hw.rtl_generation as _rtl
    nm = d.get('names') or {}
    outs = [(r, _rtl.getValidVerilogName(nm.get(r, r.replace('.', '_')))) for r in d['outputs']]
    if nm or d.get('inst_names'):
        st.probe('reserved_names' if nm or any(v in ('reg', 'wire', 'output', 'input', 'signed', 'module', 'begin', 'end', 'assign', 'always', 'integer', 'logic', 'bit') for v in d['inst_names'].values()) else 'underscore_names')
    vs = vsim.Sim(design, rng=random.Random(scn['vseed']), zero_powerup=zero_powerup, settle0=False)
    has_clk = 'clk' in design.inputs
    if has_clk:
        vs.set('clk', 0)
    first = scn['steps'][0]['vec'] if scn['steps'] else [0] * len(d['inputs'])

    def vset(vec):
        vec = list(vec) + [0] * (len(d['inputs']) - len(vec))      # pruned designs gain inputs: they are driven 0 on both sides
        for i, v in zip(d['inputs'], vec):
            pn = _rtl.getValidVerilogName(nm.get(i['name'], i['name']))
            if pn in design.inputs:
                vs.set(pn, v)
    vset(first)
    vs.settle()
    b.set_inputs(first)
    with quiet():
        sim = b.hw.getSimulator()
    seen = {}

    def compare(step, where):
        bad = netlist.update_poison(b)          # downstream of a division by zero: unspecified on both sides
        if collect_all:
            wrong = []
            for ref, vname in outs:
                if bad and netlist.parse_ref(ref)[1] in bad:
                    continue
                vv, xm = vs.get(vname)
                if xm or vv != b.wires[ref].get():
                    wrong.append(netlist.parse_ref(ref)[1])
            return (step, wrong, '') if wrong else None
        for ref, vname in outs:
            if bad and netlist.parse_ref(ref)[1] in bad:
                continue
            pv = b.wires[ref].get()
            vv, xm = vs.get(vname)
            seen.setdefault(ref, set()).add(pv)
            if xm or vv != pv:
                t = netlist.parse_ref(ref)
                kind = b.nodes[t[1]]['kind']
                if step == 0 and xm:
                    st.probe('x_seen_powerup')
                return (step, kind, '%s output %s (%s): py4hw %#x, Verilog %s' % (
                    where, vname, kind, pv, ('%#x' % vv) if not xm else 'value %#x xmask %#x' % (vv, xm)))
        return None
    m = compare(0, 'at power-up')
    if m:
        return m
    for si, step in enumerate(scn['steps'], 1):
        b.set_inputs(step['vec'])
        vset(step['vec'])
        with quiet():
            sim.clk(1)
        clones = []
        if has_clk:
            if si % 8 == 0:
                clones = [vs.clone(random.Random(h64(scn['vseed'], si, k))) for k in range(4)]
            vs.settle()
            vs.clock('clk')
        else:
            vs.settle()
        st.cycles += 1
        m = compare(si, 'after cycle %d' % si)
        if m:
            return m
        for k, c in enumerate(clones):
            st.probe('race_probe')
            c.settle()
            c.clock('clk')
            for ref, vname in outs:
                if c.get(vname) != vs.get(vname):
                    t = netlist.parse_ref(ref)
                    return (si, 'race:' + b.nodes[t[1]]['kind'], 'cycle %d: output %s differs between two IEEE-legal event orders (%s vs %s): the emitted text has a race' % (
                        si, vname, c.get(vname), vs.get(vname)))
        log.add(si, h64(tuple(b.wires[r].get() for r, _ in outs)))
    if vs.stats.get('order_choices', 0) > 0:
        st.fault('vsched', vs.stats['order_choices'])
        st.sched(scn['vseed'])
        if any(len(v) >= 2 for v in seen.values()):
            st.nontrivial = True
    seams.check_prepared_empty('end', len(scn['steps']))
    return None


def run(scn, log, st):
    m = cosim(scn, log, st)
    if m is None:
        return
    step, kind, detail = m
    from ..core import EventLog, Stats
    # blame: expose every node output as a top-level output and name the first node in dataflow
    # order whose output differs at the first failing cycle
    d = scn['design']
    allrefs = ['n%d.%d' % (n['id'], k) for n in d['nodes'] for k in range(len(n['ow']))]
    try:
        mb = cosim(dict(scn, design=dict(d, outputs=allrefs)), EventLog(), Stats(), collect_all=True)
        if mb is not None:
            wrong = set(mb[1])
            for n in netlist.RefModel(d).order:
                if n['id'] in wrong:
                    kind = n['kind']
                    break
    except Exception:
        pass
    # attribution: does the mismatch disappear when uninitialised Verilog storage powers up as 0?
    m2 = cosim(scn, EventLog(), Stats(), zero_powerup=True)
    if m2 is None:
        raise Violation('cosim-mismatch', 'cosim:uninit-storage:%s' % kind, step, detail + ' [disappears when uninitialised Verilog storage powers up as 0]')
    raise Violation('cosim-mismatch', 'cosim:%s%s' % (kind, predicates(scn['design'])), step, detail)


def sig_base(sig):
    return sig.replace(':port-alias', '')


def shrink(scn):
    yield from shrink_list(scn, 'steps', 1)
    if scn.get('perm') is not None:
        yield dict(scn, perm=None)
    if scn.get('presim'):
        yield dict(scn, presim=[])
    d = scn['design']
    ids = [n['id'] for n in d['nodes']]
    if len(ids) > 1:
        chunk = len(ids) // 2
        while chunk >= 1:
            for i in range(0, len(ids), chunk):
                keep = ids[:i] + ids[i + chunk:]
                if not keep:
                    continue
                try:
                    nd = netlist.prune(d, keep)
                except Exception:
                    continue
                ks = set(keep)
                yield dict(scn, design=nd, order=[x for x in scn['order'] if x in ks])
            chunk //= 2
    if any(n['grp'] for n in d['nodes']):
        nd = dict(d, nodes=[dict(n, grp=[]) for n in d['nodes']])
        yield dict(scn, design=nd)
    canon = sorted(scn['order'])
    if scn['order'] != canon:
        yield dict(scn, order=canon)
    nin = len(d['inputs'])
    for j in range(nin):
        if any(s['vec'][j] for s in scn['steps'] if j < len(s['vec'])):
            yield dict(scn, steps=[dict(s, vec=s['vec'][:j] + [0] + s['vec'][j + 1:]) for s in scn['steps']])

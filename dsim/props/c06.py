"""C06 - wire values always fit their declared width.

The same invariant is monitored in every run of every other property (seams.check_wire_ranges);
this campaign drives it with adversarial values: constants, Sequence values, register reset
values, comparator constants and stimulus pokes that are negative or >= 2**w, random-value
sources, every library primitive at seeded widths with operands at the extremes.  Observation
points: after simulator creation, after every clk call, inside a listener's simulatorUpdated
(the only place a user sees the system between the edges of one clk(n)), and in the samples
a Waveform recorder stored.
"""
import random

from ..core import Violation, shrink_list, h64
from .. import seams, netlist
from ..catalog import KINDS, kinds_with, M
from ..seams import quiet
import py4hw

PROP = 'C06'
TIERS = {'quick': 4500, 'thorough': 200000}
RULE = ('each run: a seeded netlist over the whole catalogue (combinational + sequential, widths 1-70) whose '
        'constants / reset values / sequence values are replaced by negative or oversized integers, poked with '
        'negative / oversized / extreme stimulus; invariant 0 <= v < 2**w and integer type at every observation '
        'point; non-trivial = at least one adversarial value was actually injected and >= 1 edge ran; '
        'distinct = distinct run digests')
REAL = ['py4hw.base.Wire.put/prepare/settle', 'all library primitives', 'py4hw.logic.simulation.Waveform/Sequence/RandomValue']
STUB = ['stimulus', 'monitoring listener']
ASSUMPTIONS = ['observation = Wire.value of every wire reachable from the HWSystem (wires created by any Logic, wires attached to any port)']
PROBES = ['shift_amount_grown', 'refused_poke', 'adv_constant_reassigned', 'bidir_clocked', 'double_prepare_block', 'adv_constant', 'adv_reset_value', 'adv_sequence', 'adv_poke', 'listener_observation', 'waveform_samples', 'random_value']


def adversarial(rng, w):
    return rng.choice([-1, -(1 << w), -(1 << (w - 1)) - 1, 1 << w, (1 << w) + 1, (1 << (w + 7)) - 1,
                       -rng.getrandbits(w + 3) - 1, rng.getrandbits(w + 9) | (1 << (w + 8)), (1 << 200) + 5])


def gen(rs, tier, index):
    rng = rs.get('design')
    kinds = [k for k in KINDS.values() if 'manual' not in k.tags]
    n = rng.choice([3, 6, 12, 20]) if tier == 'quick' else rng.choice([6, 15, 40])
    d = netlist.gen_design(rng, n, [k for k in kinds if not k.seq], hier_depth=rng.choice([0, 1]),
                           feedback=0.2, seq_kinds=[k for k in kinds if k.seq], seq_frac=0.3, big=rng.random() < 0.05)
    adv = []
    for nd in d['nodes']:
        k = nd['kind']
        if k == 'Constant' and rng.random() < 0.7:
            nd['p']['value'] = adversarial(rng, nd['ow'][0])
            adv.append('adv_constant')
        elif k == 'Reg' and nd['p']['rs'] and rng.random() < 0.7:
            nd['p']['rv'] = adversarial(rng, nd['ow'][0])
            adv.append('adv_reset_value')
        elif k == 'Sequence' and rng.random() < 0.8:
            nd['p']['values'] = [adversarial(rng, nd['ow'][0]) if rng.random() < 0.6 else v for v in nd['p']['values']]
            adv.append('adv_sequence')
    # a random-value source (numpy.random, re-seeded per run) feeding nothing but its own wire
    d['random_value'] = [{'w': rng.choice([1, 4, 8, 33]), 'mean': rng.choice([0, -5, 100, 1e6]), 'std': rng.choice([1, 50, 1e5])}
                         for _ in range(rng.randint(0, 2))]
    d['bidir'] = []
    for _ in range(rng.randint(0, 2)):
        w = rng.choice([1, 8, 16, 33])
        d['bidir'].append({'w': w, 'values': [adversarial(rng, w) if rng.random() < 0.7 else rng.getrandbits(w) for _ in range(rng.randint(1, 4))]})
    sr = rs.get('stimulus')
    steps = []
    for _ in range(sr.randint(2, 8)):
        vec = []
        for i in d['inputs']:
            r = sr.random()
            if r < 0.4:
                vec.append(adversarial(sr, i['w']))
            else:
                vec.append(netlist.gen_vector(sr, [i])[0])
        step = {'vec': vec, 'n': sr.choice([1, 1, 2, 4]), 'extra_settle': sr.random() < 0.2}
        if sr.random() < 0.1:
            step['refused_poke'] = [sr.randrange(64), sr.choice(['float', 'str', 'none'])]
        shl = [nd for nd in d['nodes'] if nd['kind'] in ('ShiftLeftConstant', 'ShiftRightConstant')]
        if shl and sr.random() < 0.3:
            nd = sr.choice(shl)
            step['param_n'] = [nd['id'], nd['p']['n'] + sr.randint(1, 12)]       # the shift amount (a block parameter) grows after construction
        consts = [nd for nd in d['nodes'] if nd['kind'] == 'Constant' and not nd.get('guard')]
        if consts and sr.random() < 0.3:
            nd = sr.choice(consts)
            step['const'] = [nd['id'], adversarial(sr, nd['ow'][0])]      # Constant.value re-assigned between clk calls
        steps.append(step)
    order = list(d['order'])
    rng.shuffle(order)
    return {'design': d, 'order': order, 'steps': steps, 'adv': adv}


class Monitor:
    def __init__(self, hw, st):
        self.hw = hw
        self.st = st
        self.n = 0

    def simulatorUpdated(self):
        self.n += 1
        self.st.probe('listener_observation')
        seams.check_wire_ranges(self.hw, 'inside listener (edge %d)' % self.n, self.n)


def run(scn, log, st):
    d = scn['design']
    for a in scn['adv']:
        st.probe(a)
    if any(n['kind'] == 'DefaultOverride' for n in d['nodes']):
        st.probe('double_prepare_block')
    b = netlist.Built(d).build(scn['order'])
    for j, rv in enumerate(d.get('random_value', [])):
        w = b.hw.wire('rnd%d' % j, rv['w'])
        py4hw.RandomValue(b.hw, 'rnd%d' % j, w, rv['mean'], rv['std'])
        st.probe('random_value')
    for j, bd in enumerate(d.get('bidir', [])):
        # a bidirectional wire driven by a clocked block (prepare / settle path of BidirWire) with adversarial values
        bw = b.hw.bidir_wire('pad%d' % j, bd['w'])
        py4hw.Sequence(b.hw, 'padseq%d' % j, list(bd['values']), bw)
        st.probe('bidir_clocked')
    watch = list(b.wires.values())[:12]
    wvf = py4hw.Waveform(b.hw, 'wvf', watch) if watch else None
    seams.check_wire_ranges(b.hw, 'after construction', 0)
    with quiet():
        sim = b.hw.getSimulator()
    seams.check_wire_ranges(b.hw, 'after simulator creation', 0)
    mon = Monitor(b.hw, st)
    sim.addListener(mon)
    for si, step in enumerate(scn['steps'], 1):
        vec = step['vec']
        for i, v in zip(d['inputs'], vec):
            if v < 0 or v >> i['w']:
                st.probe('adv_poke')
        if step.get('const') and step['const'][0] in b.objs:
            b.objs[step['const'][0]].value = step['const'][1]
            st.probe('adv_constant_reassigned')
        if step.get('param_n') and step['param_n'][0] in b.objs:
            b.objs[step['param_n'][0]].addParameter('n', step['param_n'][1])
            st.fault('param_update')
            st.probe('shift_amount_grown')
        b.set_inputs(vec)
        if step.get('refused_poke') is not None and d['inputs']:
            # a poke the library refuses (not an integer): whatever it answers, the wire keeps a value of its width
            j, what = step['refused_poke']
            try:
                b.wires[d['inputs'][j % len(d['inputs'])]['name']].put({'float': 3.5, 'str': '7', 'none': None}[what])
            except Exception:
                st.probe('refused_poke')
            st.fault('refused_poke')
        seams.check_wire_ranges(b.hw, 'after put', si)
        if step['extra_settle']:
            sim.propagateAll()
            st.fault('extra_settle')
            seams.check_wire_ranges(b.hw, 'after propagateAll', si)
        with quiet():
            sim.clk(step['n'])
        st.cycles += step['n']
        seams.check_wire_ranges(b.hw, 'after clk', si)
        seams.check_prepared_empty('after clk', si)
        log.add(si, h64(tuple(w.get() for w in b.wires.values())))
    if wvf is not None:
        for w, samples in wvf.getDict().items():
            for c, v in enumerate(samples):
                st.probe('waveform_samples')
                if not isinstance(v, int) or v < 0 or v >> w.getWidth():
                    raise Violation('wire-range', 'C06:range:waveform', c, 'recorded sample %r of %s (width %d)' % (v, w.getFullPath(), w.getWidth()))
    if st.cycles and (scn['adv'] or st.probes.get('adv_poke')):
        st.nontrivial = True


def shrink(scn):
    yield from shrink_list(scn, 'steps', 1)
    d = scn['design']
    ids = [n['id'] for n in d['nodes']]
    chunk = len(ids) // 2
    while chunk >= 1:
        for i in range(0, len(ids), chunk):
            keep = ids[:i] + ids[i + chunk:]
            if not keep:
                continue
            try:
                nd = netlist.prune(d, keep)
            except Exception:
                continue
            c = dict(scn)
            c['design'] = nd
            ks = set(keep)
            c['order'] = [x for x in scn['order'] if x in ks]
            yield c
        chunk //= 2

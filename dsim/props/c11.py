"""C11 - ill-formed netlists are rejected when they are built or checked.

Two kinds of run.
 'ops'       a seeded construction history (new wires, structural and primitive blocks,
             bundles through wires(), in/out pins of primitives on ordinary wires,
             rename / reparent / reparentAndRename) over a few parents with names drawn from a
             tiny pool so that conflicts are frequent; illegal operations (second driver,
             duplicate child name, duplicate wire name by creation / rename / re-parenting) are
             injected as faults.  Oracle = registry model: the call raises iff the model
             predicts a conflict, and after a refused call the earlier driver / child / wire is
             the same object as before.
 'integrity' a seeded netlist over the whole catalogue whose primary inputs are driven by
             stimulus blocks: checkIntegrity must accept it; with one driver left out
             (single fault) it must raise - also when the wire that lost its driver carries the
             same name as another wire (of another parent) on a port of the same reader; a duplicated driver must be refused at
             construction and leave the first driver in place.
"""
import random

import py4hw
from py4hw.base import Logic, Wire
import py4hw.debug

from ..core import Violation, shrink_list, h64
from .. import seams, netlist
from ..catalog import KINDS
from ..seams import quiet

PROP = 'C11'
TIERS = {'quick': 9000, 'thorough': 1200000}
RULE = ('ops runs: 10-60 seeded construction operations over 1-4 parents, names from a 5-name pool; integrity runs: '
        'catalogue netlists of 3-25 blocks with every input driven, then the same netlist with one driver omitted or '
        'duplicated; non-trivial = at least one operation was (correctly) refused and at least one accepted, or an '
        'integrity fault variant was exercised; distinct = distinct run digests')
REAL = ['py4hw.base.Logic.__init__/appendWire', 'py4hw.base.Wire.setSource/rename/reparent/reparentAndRename',
        'py4hw.base.InPort/OutPort registration', 'py4hw.debug.checkIntegrity', 'library block constructors']
STUB = []
ASSUMPTIONS = ['a refused rename leaves the renamed wire unregistered: outside the statement, the model follows the library there']
PROBES = ['refused_second_driver', 'refused_dup_child', 'refused_dup_wire_create', 'refused_dup_wire_rename',
          'refused_dup_wire_reparent', 'accepted_op', 'integrity_accept', 'integrity_missing_driver', 'integrity_dup_driver',
          'structural_second_driver', 'same_block_second_driver', 'integrity_recheck_after_edit', 'integrity_same_name_other_scope', 'integrity_undriven_wire_named_clk', 'integrity_after_history',
          'refused_dup_wire_bundle', 'inout_second_driver', 'inout_on_plain_wire',
          'refused_dup_wire_interface', 'interface_signal_removed', 'driver_disconnected', 'refused_disconnect']

NAMES = ['a', 'b', 'c', 'x', 'y']
WNAMES = NAMES + ['a_1', 'b_0', 'a_2']          # single wires that a later bundle a_0.. / b_0.. collides with
BLK = ['Buf', 'Not', 'And2', 'Reg', 'Constant', 'Add', 'Mux2', 'Counter', 'Bits2', 'BidirBuf']


class Grp(Logic):
    pass


def gen(rs, tier, index):
    rng = rs.get('design')
    if rng.random() < 0.6:
        ops = []
        n = rng.randint(10, 60)
        for _ in range(n):
            r = rng.random()
            if r < 0.03:
                ops.append({'op': 'iface_new', 'parent': rng.randrange(8), 'name': rng.choice(['a', 'b'])})
                continue
            r2 = rng.random()
            if r2 < 0.06:
                ops.append({'op': 'iface_sig', 'iface': rng.randrange(8), 'name': rng.choice(['0', '1', '2', 'x']), 'w': rng.choice([1, 8]),
                            'dir': rng.choice(['s2k', 'k2s'])})
                continue
            if r2 < 0.09:
                ops.append({'op': 'iface_rm', 'iface': rng.randrange(8), 'name': rng.choice(['0', '1', '2', 'x']), 'dir': rng.choice(['s2k', 'k2s'])})
                continue
            if r2 < 0.13:
                ops.append({'op': 'disconnect', 'wire': rng.randrange(64), 'blk': rng.randrange(64)})
                continue
            if r < 0.06:
                ops.append({'op': 'wires', 'parent': rng.randrange(8), 'name': rng.choice(['a', 'b']), 'num': rng.randint(1, 4), 'w': rng.choice([1, 4, 8])})
            elif r < 0.3:
                ops.append({'op': 'wire', 'parent': rng.randrange(8), 'name': rng.choice(WNAMES), 'w': rng.choice([1, 1, 4, 8])})
            elif r < 0.4:
                ops.append({'op': 'grp', 'parent': rng.randrange(8), 'name': rng.choice(NAMES)})
            elif r < 0.7:
                ops.append({'op': 'blk', 'parent': rng.randrange(8), 'name': rng.choice(NAMES + ['u%d' % rng.randrange(6)]),
                            'kind': rng.choice(BLK), 'ins': [rng.randrange(64) for _ in range(3)], 'out': rng.randrange(64)})
            elif r < 0.82:
                ops.append({'op': 'rename', 'wire': rng.randrange(64), 'name': rng.choice(NAMES)})
            elif r < 0.92:
                ops.append({'op': 'reparent', 'wire': rng.randrange(64), 'parent': rng.randrange(8)})
            else:
                ops.append({'op': 'reparent_rename', 'wire': rng.randrange(64), 'parent': rng.randrange(8), 'name': rng.choice(NAMES)})
        return {'mode': 'ops', 'ops': ops}
    kinds = [k for k in KINDS.values() if 'manual' not in k.tags]
    n = rng.choice([3, 6, 12]) if tier == 'quick' else rng.choice([6, 15, 25])
    d = netlist.gen_design(rng, n, [k for k in kinds if not k.seq], hier_depth=rng.choice([0, 1, 2]),
                           feedback=0.1, seq_kinds=[k for k in kinds if k.seq], seq_frac=0.25)
    fr = rs.get('faults')
    fault = fr.choice(['none', 'omit_node', 'omit_input_driver', 'dup_driver'])
    return {'mode': 'integrity', 'design': d, 'fault': fault, 'pick': fr.randrange(1 << 30), 'shadow': fr.random() < 0.6}


# --------------------------------------------------------------------------- ops mode

def run_ops(scn, log, st):
    hw = py4hw.HWSystem()
    parents = [hw]
    children = {id(hw): dict(hw.children)}
    wires = {id(hw): dict(hw._wires)}        # the HWSystem already owns its 'clk' wire
    wlist = []                                # wires created through ops, in creation order
    registered = {}                           # id(wire) -> still registered with its parent?
    driver = {}                               # id(wire) -> driving port
    refused = accepted = 0
    ifaces = []                               # interfaces created through ops
    blocks = []                               # blocks accepted through ops

    def expect_raise(fn, should, what, si):
        try:
            with quiet():
                r = fn()
        except Exception as e:
            if not should:
                raise Violation('spurious-refusal', 'spurious:%s' % what, si, '%s raised %r but no conflict exists' % (what, e))
            return ('raised', None)
        if should:
            raise Violation('conflict-accepted', 'accepted:%s' % what, si, '%s did not raise although it creates a conflict' % what)
        return ('ok', r)

    for si, op in enumerate(scn['ops'], 1):
        kind = op['op']
        if kind in ('wire', 'wires', 'grp', 'blk', 'iface_new'):
            p = parents[op['parent'] % len(parents)]
            pc, pw = children.setdefault(id(p), {}), wires.setdefault(id(p), {})
        if kind == 'iface_new':
            # an Interface is a named bundle description; its signals become wires <iface>_<signal> of the parent
            ifaces.append(py4hw.Interface(p, op['name']))
        elif kind == 'iface_sig':
            if not ifaces:
                continue
            itf = ifaces[op['iface'] % len(ifaces)]
            p = itf.parent
            pw = wires.setdefault(id(p), {})
            nm = '%s_%s' % (itf.name, op['name'])
            conflict = nm in pw
            old = pw.get(nm)
            add = itf.addSourceToSink if op['dir'] == 's2k' else itf.addSinkToSource
            res, w = expect_raise(lambda: add(op['name'], op['w']), conflict, 'dup-wire-interface', si)
            if conflict:
                st.probe('refused_dup_wire_interface')
                refused += 1
                if p._wires.get(nm) is not old:
                    raise Violation('earlier-lost', 'earlier-wire-replaced:interface', si, 'wire %s of %s was replaced' % (nm, p.getFullPath()))
            else:
                accepted += 1
                pw[nm] = w
                wlist.append(w)
                registered[id(w)] = True
        elif kind == 'iface_rm':
            # trimming the description of an interface does not give the name of the wire back: the wire still exists
            if not ifaces:
                continue
            itf = ifaces[op['iface'] % len(ifaces)]
            try:
                with quiet():
                    (itf.removeSourceToSink if op['dir'] == 's2k' else itf.removeSinkToSource)(op['name'])
                st.probe('interface_signal_removed')
            except Exception:
                pass
        elif kind == 'disconnect':
            if not wlist or not blocks:
                continue
            w = wlist[op['wire'] % len(wlist)]
            o = blocks[op['blk'] % len(blocks)]
            is_src = w.source is not None and any(w.source is q for q in o.outPorts)
            is_snk = any(any(sk is q for q in o.inPorts) for sk in w.sinks)
            res, _ = expect_raise(lambda: py4hw.base.disconnectWireFromLogicObject(w, o), not (is_src or is_snk), 'disconnect-unconnected', si)
            if is_src:
                driver[id(w)] = None          # the wire is free for a new driver
                st.probe('driver_disconnected')
                accepted += 1
            elif is_snk:
                accepted += 1
            else:
                st.probe('refused_disconnect')
                refused += 1
        elif kind == 'wire':
            nm = op['name']
            conflict = nm in pw
            old = pw.get(nm)
            res, w = expect_raise(lambda: p.wire(nm, op['w']), conflict, 'dup-wire-create', si)
            if conflict:
                st.probe('refused_dup_wire_create')
                refused += 1
                if p._wires.get(nm) is not old:
                    raise Violation('earlier-lost', 'earlier-wire-replaced:create', si, 'wire %s of %s was replaced' % (nm, p.getFullPath()))
            else:
                accepted += 1
                pw[nm] = w
                wlist.append(w)
                registered[id(w)] = True
        elif kind == 'wires':
            # a bundle <prefix>_0 .. <prefix>_{num-1}: refused iff one of the names exists; every earlier wire stays
            # (the registry comparison below); which of the new names survive a refused call is outside the statement
            nms = ['%s_%d' % (op['name'], i) for i in range(op['num'])]
            conflict = any(n_ in pw for n_ in nms)
            before = dict(pw)
            res, ws_ = expect_raise(lambda: p.wires(op['name'], op['num'], op['w']), conflict, 'dup-wire-bundle', si)
            if conflict:
                st.probe('refused_dup_wire_bundle')
                refused += 1
                for n_ in nms:
                    if n_ in before:
                        if p._wires.get(n_) is not before[n_]:
                            raise Violation('earlier-lost', 'earlier-wire-replaced:bundle', si, 'wire %s of %s was removed or replaced by a refused bundle creation' % (n_, p.getFullPath()))
                    elif n_ in p._wires:
                        w = p._wires[n_]
                        pw[n_] = w
                        wlist.append(w)
                        registered[id(w)] = True
            else:
                accepted += 1
                if [w.name for w in ws_] != nms or any(p._wires.get(n_) is not w for n_, w in zip(nms, ws_)):
                    raise Violation('registry', 'bundle-not-registered', si, 'wires(%r, %d) returned %s' % (op['name'], op['num'], [w.name for w in ws_]))
                for n_, w in zip(nms, ws_):
                    pw[n_] = w
                    wlist.append(w)
                    registered[id(w)] = True
        elif kind == 'grp':
            nm = op['name']
            conflict = nm in pc
            old = pc.get(nm)
            res, g = expect_raise(lambda: Grp(p, nm), conflict, 'dup-child', si)
            if conflict:
                st.probe('refused_dup_child')
                refused += 1
                if p.children.get(nm) is not old:
                    raise Violation('earlier-lost', 'earlier-child-replaced', si, 'child %s of %s was replaced' % (nm, p.getFullPath()))
            else:
                accepted += 1
                pc[nm] = g
                parents.append(g)
        elif kind == 'blk' and op['kind'] == 'BidirBuf':
            if not wlist:
                continue
            nm = op['name']
            ws = [wlist[i % len(wlist)] for i in op['ins']]
            out = wlist[op['out'] % len(wlist)]
            name_conflict = nm in pc
            # an in/out pin of a primitive on an ordinary wire is a driver like any other; the block also drives 'pin'
            poe = next((w for w in wlist if w.getWidth() == 1), None)
            if poe is None:
                continue
            pin = ws[1]
            old_child, old_pad, old_pin = pc.get(nm), out.source, pin.source
            pad_conflict = driver.get(id(out)) is not None
            pin_conflict = driver.get(id(pin)) is not None or pin is out
            what = 'dup-child' if name_conflict else 'second-driver:inout'
            res, o = expect_raise(lambda: py4hw.BidirBuf(p, nm, pin, ws[0], poe, out), name_conflict or pad_conflict or pin_conflict, what, si)
            if name_conflict:
                st.probe('refused_dup_child')
                refused += 1
                if p.children.get(nm) is not old_child or out.source is not old_pad or pin.source is not old_pin:
                    raise Violation('earlier-lost', 'earlier-replaced:inout', si, 'refused BidirBuf %s changed a child or a driver' % nm)
            elif pad_conflict or pin_conflict:
                st.probe('refused_second_driver')
                st.probe('inout_second_driver')
                refused += 1
                if pad_conflict and out.source is not old_pad:
                    raise Violation('earlier-lost', 'earlier-driver-replaced', si, 'driver of %s replaced by a refused in/out pin' % out.getFullPath())
                if driver.get(id(pin)) is not None and pin.source is not old_pin:
                    raise Violation('earlier-lost', 'earlier-driver-replaced', si, 'driver of %s replaced by a refused call' % pin.getFullPath())
                # outside the statement: ports registered before the refusal stay; follow the library
                driver[id(out)] = out.source
                driver[id(pin)] = pin.source
                if nm in p.children:
                    pc[nm] = p.children[nm]
            else:
                accepted += 1
                st.probe('inout_on_plain_wire')
                pc[nm] = o
                if out.source is None or pin.source is None:
                    raise Violation('driver-missing', 'driver-not-registered', si, 'BidirBuf %s built but pad or pin has no driver' % nm)
                driver[id(out)] = out.source
                driver[id(pin)] = pin.source
        elif kind == 'blk':
            if not wlist:
                continue
            nm = op['name']
            bk = op['kind']
            ws = [wlist[i % len(wlist)] for i in op['ins']]
            out = wlist[op['out'] % len(wlist)]
            name_conflict = nm in pc
            drv_conflict = driver.get(id(out)) is not None or bk == 'Bits2'
            if bk == 'Bits2':
                two_bit = next((w for w in wlist if w.getWidth() >= 2), None)
                if two_bit is None:
                    continue
            old_child = pc.get(nm)
            old_src = out.source

            def mk():
                if bk == 'Buf':
                    return py4hw.Buf(p, nm, ws[0], out)
                if bk == 'Not':
                    return py4hw.Not(p, nm, ws[0], out)
                if bk == 'And2':
                    return py4hw.And2(p, nm, ws[0], ws[1], out)
                if bk == 'Reg':
                    return py4hw.Reg(p, nm, ws[0], out)
                if bk == 'Constant':
                    return py4hw.Constant(p, nm, 1, out)
                if bk == 'Add':
                    return py4hw.Add(p, nm, ws[0], ws[1], out)
                if bk == 'Mux2':
                    return py4hw.Mux2(p, nm, ws[0], ws[1], ws[2], out)
                if bk == 'Bits2':
                    # one primitive driving the same wire from two of its output ports: a second driver like any other
                    return py4hw.BitsLSBF(p, nm, two_bit, [out] * two_bit.getWidth())
                return py4hw.Counter(p, nm, ws[0], ws[1], out)
            what = 'dup-child' if name_conflict else 'second-driver'
            if bk in ('Add', 'Counter') and not name_conflict and not drv_conflict:
                # structural blocks assert width relations of their own; keep them satisfiable
                if bk == 'Add' and out.getWidth() < ws[0].getWidth():
                    continue
            res, o = expect_raise(mk, name_conflict or drv_conflict, what, si)
            if name_conflict:
                st.probe('refused_dup_child')
                refused += 1
                if p.children.get(nm) is not old_child:
                    raise Violation('earlier-lost', 'earlier-child-replaced', si, 'child %s replaced' % nm)
                if out.source is not old_src:
                    raise Violation('earlier-lost', 'earlier-driver-replaced', si, 'driver of %s changed by a refused call' % out.getFullPath())
            elif drv_conflict:
                st.probe('refused_second_driver')
                if bk in ('Add', 'Counter'):
                    st.probe('structural_second_driver')
                refused += 1
                if bk == 'Bits2' and old_src is None:
                    st.probe('same_block_second_driver')
                    driver[id(out)] = out.source        # the first of the two ports registered (outside the statement)
                elif out.source is not old_src:
                    raise Violation('earlier-lost', 'earlier-driver-replaced', si, 'driver of %s replaced by a refused call' % out.getFullPath())
                # outside the statement: the half-built child stays registered; follow the library
                if nm in p.children:
                    pc[nm] = p.children[nm]
                    if isinstance(p.children[nm], Logic):
                        sync_struct(p.children[nm], children, wires)
            else:
                accepted += 1
                pc[nm] = o
                blocks.append(o)
                if out.source is None:
                    raise Violation('driver-missing', 'driver-not-registered', si, 'block %s built but %s has no driver' % (nm, out.getFullPath()))
                driver[id(out)] = out.source
                sync_struct(o, children, wires)
        else:
            if not wlist:
                continue
            w = wlist[op['wire'] % len(wlist)]
            if not registered.get(id(w)):
                continue        # unregistered by an earlier refused rename: outside the statement
            p = w.parent
            pw = wires.setdefault(id(p), {})
            if kind == 'rename':
                np_, nm = p, op['name']
            elif kind == 'reparent':
                np_, nm = parents[op['parent'] % len(parents)], w.name
            else:
                np_, nm = parents[op['parent'] % len(parents)], op['name']
            npw = wires.setdefault(id(np_), {})
            conflict = nm in npw and npw[nm] is not w
            old = npw.get(nm)
            oldname = w.name
            if kind == 'rename':
                fn = lambda: w.rename(nm)
            elif kind == 'reparent':
                fn = lambda: w.reparent(np_)
            else:
                fn = lambda: w.reparentAndRename(np_, nm)
            what = 'dup-wire-rename' if kind == 'rename' else 'dup-wire-reparent'
            expect_raise(fn, conflict, what, si)
            if conflict:
                st.probe('refused_' + what.replace('-', '_'))
                refused += 1
                if np_._wires.get(nm) is not old:
                    raise Violation('earlier-lost', 'earlier-wire-replaced:%s' % kind, si, 'wire %s of %s was replaced' % (nm, np_.getFullPath()))
                # the refused wire is left unregistered by the library (outside the statement)
                if pw.get(oldname) is w:
                    del pw[oldname]
                registered[id(w)] = False
            else:
                accepted += 1
                if pw.get(oldname) is w:
                    del pw[oldname]
                npw[nm] = w
                if np_._wires.get(nm) is not w:
                    raise Violation('registry', 'wire-not-registered', si, '%s not registered as %s' % (w.getFullPath(), nm))
        # registries agree with the model after every operation
        for q in parents:
            mw = wires.get(id(q), {})
            if set(q._wires) != set(mw) or any(q._wires[k] is not mw[k] for k in mw):
                raise Violation('registry', 'wire-registry-diverged', si, '%s has wires %s, model %s' % (q.getFullPath(), sorted(q._wires), sorted(mw)))
            mc = children.get(id(q), {})
            if set(q.children) != set(mc) or any(q.children[k] is not mc[k] for k in mc):
                raise Violation('registry', 'child-registry-diverged', si, '%s has children %s, model %s' % (q.getFullPath(), sorted(q.children), sorted(mc)))
        for w in wlist:
            d0 = driver.get(id(w))
            if w.source is not d0:
                raise Violation('registry', 'driver-diverged', si, 'driver of %s changed unexpectedly' % w.getFullPath())
        log.add(si, repr(sorted(op.items())), refused, accepted)
    # the hierarchy that the history left behind: a port attached to a wire that no block of the hierarchy drives (no
    # driver at all, or a registered driver that belongs to a block which is not part of the hierarchy) must be reported
    live = {id(o) for o in seams.walk(hw)}
    undriven = []
    for o in seams.walk(hw):
        for q in o.inPorts + o.outPorts:
            if q.wire is not None and (q.wire.source is None or id(q.wire.source.parent) not in live):
                undriven.append(q.getFullPath())
    if undriven:
        try:
            with quiet():
                py4hw.debug.checkIntegrity(hw)
        except Exception:
            st.probe('integrity_after_history')
        else:
            raise Violation('integrity', 'integrity:accepted-undriven:after-history', len(scn['ops']),
                            'checkIntegrity accepted the hierarchy left by the history although %s is attached to a wire no block of the hierarchy drives' % undriven[0])
    if refused:
        st.fault('illegal_op', refused)
        st.probe('accepted_op', accepted)
    st.nontrivial = refused > 0 and accepted > 0


def sync_struct(obj, children, wires):
    """library blocks create their own children and wires; they are not operated on"""
    pass


# --------------------------------------------------------------------------- integrity mode

def run_integrity(scn, log, st):
    d = scn['design']
    fault = scn['fault']
    pick = scn['pick']
    ids = list(d['order'])
    omit = None
    if fault == 'omit_node':
        omit = ids[pick % len(ids)]
        if scn.get('shadow'):
            d = shadow_names(d, omit, st)
    b = netlist.Built(d)
    for nid in ids:
        if nid != omit:
            b.add_node(nid)
    for i in d['inputs']:
        b.wire(i['name'])
    b._flush_drivers()
    # wires of the omitted node must still exist for the ports attached to them
    if omit is not None:
        for j in range(len(b.nodes[omit]['ow'])):
            b.wire('n%d.%d' % (omit, j))
    # drive every primary input
    skip_in = None
    if fault == 'omit_input_driver' and d['inputs']:
        skip_in = d['inputs'][pick % len(d['inputs'])]['name']
    for i in d['inputs']:
        if i['name'] == skip_in:
            continue
        py4hw.Sequence(b.hw, 'drv_' + i['name'], [0, 1], b.wires[i['name']])
    if fault == 'dup_driver':
        cands = [r for r, w in b.wires.items() if w.source is not None]
        r = sorted(cands)[pick % len(cands)]
        w = b.wires[r]
        old = w.source
        try:
            py4hw.Constant(b.hw, 'dup_driver', 0, w)
        except Exception:
            st.probe('integrity_dup_driver')
            st.nontrivial = True
            if w.source is not old:
                raise Violation('earlier-lost', 'earlier-driver-replaced', 1, 'driver of %s replaced' % w.getFullPath())
        else:
            raise Violation('conflict-accepted', 'accepted:second-driver', 1, 'a second driver on %s (%s) was accepted' % (r, w.getFullPath()))
        log.add('dup', r, h64(repr(d['nodes'])))
        st.fault('dup_driver')
        return
    must_raise = (omit is not None) or (skip_in is not None)
    # the model: a port somewhere in the hierarchy attached to a wire nobody drives
    undriven = []
    for o in seams.walk(b.hw):
        for p in o.inPorts + o.outPorts:
            if p.wire is not None and p.wire.source is None:
                undriven.append(p.getFullPath())
    if bool(undriven) != must_raise:
        # the description itself is not what the fault plan assumed (e.g. the omitted node drove nothing)
        must_raise = bool(undriven)
    try:
        with quiet():
            py4hw.debug.checkIntegrity(b.hw)
        raised = None
    except Exception as e:
        raised = e
    if must_raise and raised is None:
        raise Violation('integrity', 'integrity:accepted-undriven', 1, 'checkIntegrity accepted a hierarchy with undriven port wires %s' % undriven[:3])
    if not must_raise and raised is not None:
        raise Violation('integrity', 'integrity:refused-wellformed', 1, 'checkIntegrity raised %r on a hierarchy whose port wires are all driven' % raised)
    if must_raise:
        st.probe('integrity_missing_driver')
        st.nontrivial = True
    else:
        st.probe('integrity_accept')
        st.nontrivial = True
        # check -> edit -> check: an undriven leaf added inside an already accepted block must be reported by the next check
        parents = [o for o in seams.walk(b.dut) if isinstance(o, (netlist.Grp, netlist.Dut))]
        par = parents[pick % len(parents)]
        und = par.wire('late_undriven', 3)
        py4hw.Buf(par, 'late_buf', und, par.wire('late_out', 3))
        try:
            with quiet():
                py4hw.debug.checkIntegrity(b.hw)
        except Exception:
            st.probe('integrity_recheck_after_edit')
        else:
            raise Violation('integrity', 'integrity:accepted-undriven:after-edit', 2,
                            'checkIntegrity accepted the hierarchy again after a leaf with an undriven input was added to %s' % par.getFullPath())
    log.add('integrity', fault, bool(raised), h64(repr(d['nodes'])))
    if fault != 'none':
        st.fault(fault)


def shadow_names(d, omit, st):
    """the wire that loses its driver gets the name of the wire on the output of one of its readers (legal: the two
    wires belong to different parents), so that reader has two ports on different wires with one name"""
    nodes = {n['id']: n for n in d['nodes']}
    outs = set(d['outputs'])
    for j in range(len(nodes[omit]['ow'])):
        s = 'n%d.%d' % (omit, j)
        if s in outs:
            continue
        if omit % 2 == 0 and not (d.get('names') or {}) and any(s in n['ins'] for n in d['nodes']):
            # ... or the name of the clock net of the system (the wire lives in a sub-block, where that name is free)
            st.probe('integrity_undriven_wire_named_clk')
            return dict(d, names={s: 'clk'})
        readers = [n for n in d['nodes'] if s in n['ins'] and n['id'] != omit]
        paths = [tuple(nodes[omit]['grp'])] + [tuple(n['grp']) for n in readers]
        lca = paths[0]
        for q in paths[1:]:
            k = 0
            while k < len(lca) and k < len(q) and lca[k] == q[k]:
                k += 1
            lca = lca[:k]
        for c in readers:
            if tuple(c['grp']) != lca:
                continue          # the undriven wire would enter the reader's group through a port of the same name
            for k in range(len(c['ow'])):
                o = 'n%d.%d' % (c['id'], k)
                if o in outs and not (d.get('names') or {}):
                    st.probe('integrity_same_name_other_scope')
                    return dict(d, names={s: o.replace('.', '_')})
    return d


def run(scn, log, st):
    if scn['mode'] == 'ops':
        run_ops(scn, log, st)
    else:
        run_integrity(scn, log, st)


def shrink(scn):
    if scn['mode'] == 'ops':
        yield from shrink_list(scn, 'ops', 1)
        return
    d = scn['design']
    ids = [n['id'] for n in d['nodes']]
    chunk = len(ids) // 2
    while chunk >= 1:
        for i in range(0, len(ids), chunk):
            keep = ids[:i] + ids[i + chunk:]
            if not keep:
                continue
            try:
                nd = netlist.prune(d, keep)
            except Exception:
                continue
            c = dict(scn)
            c['design'] = nd
            yield c
        chunk //= 2

"""C13 - single-precision floating-point blocks meet IEEE-754 within stated error bounds.

Plain statement of fit (see DESIGN.md): the deciding dimension is seeded sampling of operand
space against an exact oracle in fractions.Fraction.  The simulation contributes the live
system: a netlist of up to ~600 concurrently evaluated primitives whose internal instantiation
order is permuted (perm_children), re-sorted, restarted and re-evaluated (extra_settle) while a
seeded operand *sequence* runs through optional input registers, so stale or order-dependent
evaluation shows up; C04/C06 invariants are monitored on all internal wires.
"""
import random
from fractions import Fraction

import py4hw

from ..core import Violation, shrink_list, h64
from .. import seams
from ..seams import quiet
from .c04 import local_fixpoint

PROP = 'C13'
TIERS = {'quick': 2100, 'thorough': 150000}
RULE = ('each run: one block (FPAdder_SP, FPMult_SP, FPComparator_SP plain/absolute, InttoFP_SP, FPtoInt_SP), 20-60 operand '
        'vectors built from (sign, exponent, mantissa pattern): exponent gaps 0-60, mantissa patterns 0 / 1 / 0x400000 / '
        '0x7FFFFE / 0x7FFFFF / random, opposite signs with close magnitudes, powers of two +-1 for the converters; '
        'non-trivial = >= 10 vectors were inside the stated domain and a schedule fault fired; distinct = distinct run '
        'digests; distinct_states = distinct (block, exponent gap or magnitude class) pairs')
REAL = ['py4hw.logic.arithmetic_fp (FPAdder_SP, FPMult_SP, InttoFP_SP, FPtoInt_SP)', 'py4hw.logic.relational.FPComparator_SP', 'py4hw simulator']
STUB = ['stimulus']
ASSUMPTIONS = ['domain: finite normal operands; adder/multiplier only where the exact result is normal (non-zero, exponent in range)',
               'ulp of a value v = 2**(floor(log2|v|) - 23)']
PROBES = ['operand_wires_with_one_name', 'operands_from_constant_blocks', 'operands_from_helper_constants', 'outputs_read_at_time_zero', 'settled_by_clk0', 'block_added_after_simulation', 'add_gap_ge_24', 'add_gap_ge_32', 'add_cancellation', 'mul_exact_normal', 'cmp_equal', 'i2f_exact', 'i2f_lost', 'f2i_exact_odd',
          'f2i_fraction', 'f2i_invalid', 'f2i_small']

MANT = [0, 1, 0x400000, 0x7FFFFE, 0x7FFFFF]


def mk(s, e, m):
    return (s << 31) | (e << 23) | m


def val(x):
    s, e, m = x >> 31, (x >> 23) & 0xFF, x & 0x7FFFFF
    if e == 0:
        v = Fraction(m, 1 << 23) * Fraction(2) ** (-126)
    else:
        v = (1 + Fraction(m, 1 << 23)) * Fraction(2) ** (e - 127)
    return -v if s else v


def is_normal_enc(x):
    return 1 <= ((x >> 23) & 0xFF) <= 254


def ilog2(fr):
    """floor(log2(|fr|)) for a positive Fraction"""
    fr = abs(fr)
    n = fr.numerator.bit_length() - fr.denominator.bit_length()
    if Fraction(2) ** n > fr:
        n -= 1
    elif Fraction(2) ** (n + 1) <= fr:
        n += 1
    return n


def rnd_mant(rng):
    return rng.choice(MANT) if rng.random() < 0.5 else rng.getrandbits(23)


def gen(rs, tier, index):
    from ..core import known_findings
    kf = known_findings()
    rng = rs.get('design')
    blk = rng.choice(['add', 'add', 'mul', 'cmp', 'cmpabs', 'i2f', 'f2i'])
    sr = rs.get('stimulus')
    n = sr.choice([20, 40]) if tier == 'quick' else sr.choice([40, 60])
    vecs = []
    for _ in range(n):
        if blk in ('add', 'cmp', 'cmpabs'):
            ea = sr.randint(1, 254)
            gap = sr.choice([0, 0, 1, 1, 2, 3, 7, 22, 23, 24, 25, 26, 31, 32, 33, 40, 60, sr.randint(0, 60)])
            if blk == 'add' and gap >= 32 and kf.excluded('fpadd-expgap-ge-32'):
                gap = sr.randint(0, 31)
            eb = ea - gap if ea - gap >= 1 else min(254, ea + gap)
            a = mk(sr.getrandbits(1), ea, rnd_mant(sr))
            b = mk(sr.getrandbits(1), eb, rnd_mant(sr))
            r = sr.random()
            if r < 0.15:
                b = a ^ (1 << 31) ^ sr.choice([1, 2, 0x400000])          # opposite sign, close magnitude
                if not is_normal_enc(b):
                    b = a ^ (1 << 31)
            elif r < 0.22:
                b = a                                                        # equal operands
            if sr.random() < 0.5:
                a, b = b, a
            vecs.append([a, b])
        elif blk == 'mul':
            ea = sr.randint(1, 254)
            eb = sr.randint(max(1, 130 - ea), min(254, 380 - ea)) if sr.random() < 0.9 else sr.randint(1, 254)
            vecs.append([mk(sr.getrandbits(1), ea, rnd_mant(sr)), mk(sr.getrandbits(1), eb, rnd_mant(sr))])
        elif blk == 'i2f':
            k = sr.randint(0, 31)
            base = 1 << k
            v = sr.choice([0, 1, base, base - 1, base + 1, (1 << 32) - base, (1 << 32) - base + 1, (1 << 32) - base - 1,
                           0x7FFFFFFF, 0x80000000, 0x80000001, 0xFFFFFFFF, sr.getrandbits(32), sr.getrandbits(k + 1)])
            vecs.append([v & 0xFFFFFFFF])
        else:
            e = sr.choice([sr.randint(1, 254), sr.randint(120, 160), sr.randint(127, 158)])
            vecs.append([mk(sr.getrandbits(1), e, sr.choice(MANT + [0x200000, 0x600000]) if sr.random() < 0.6 else sr.getrandbits(23))])
    fr = rs.get('faults')
    steps = [{'vec': v, 'faults': [f for f in ('resort', 'sim_restart', 'extra_settle') if fr.random() < 0.05]} for v in vecs]
    return {'blk': blk, 'steps': steps, 'perm': rs.sub('perm') if fr.random() < 0.7 else None, 'inregs': rng.random() < 0.5,
            'settle': fr.choice(['clk1', 'clk1', 'clk0', 'prop']), 'late_dut': fr.random() < 0.2, 'samename': fr.random() < 0.12,
            # operand source: poked wires, Constant blocks that exist before the block under test (value re-assigned every
            # vector), or placeholders from LogicHelper.hw_constant that all start from the same value
            'src': fr.choice(['put', 'put', 'const', 'helper_const']),
            # time_zero: the first vector is applied before the simulator is asked for, outputs are read before any clk()
            'time_zero': fr.random() < 0.3}


class _Box(py4hw.Logic):
    pass


scn_drivers = [None]        # Constant blocks driving the operands of the design built last (None: poked wires)


def build(scn):
    hw = py4hw.HWSystem()
    blk = scn['blk']
    nin = 1 if blk in ('i2f', 'f2i') else 2
    src = scn.get('src', 'put') if not scn['inregs'] else 'put'
    first = scn['steps'][0]['vec'] if scn['steps'] else [0] * nin
    drivers = None
    if src == 'const':
        ins = [hw.wire('in%d' % i, 32) for i in range(nin)]
        drivers = [py4hw.Constant(hw, 'k%d' % i, first[i], ins[i]) for i in range(nin)]
    elif src == 'helper_const':
        from py4hw.helper import LogicHelper
        g = LogicHelper(hw)
        ins = [g.hw_constant(32, 0) for i in range(nin)]          # placeholders, one initial value
        drivers = [x.getSource().parent for x in ins]
    else:
        ins = [hw.wire('in%d' % i, 32) for i in range(nin)]
    scn_drivers[0] = drivers
    feed = ins
    if scn['inregs']:
        feed = [hw.wire('q%d' % i, 32) for i in range(nin)]
        for i in range(nin):
            py4hw.Reg(hw, 'inreg%d' % i, ins[i], feed[i])
    outs = {}
    par = hw
    if scn.get('late_dut'):
        # the simulator exists and has run before the block under test is instantiated - inside an existing sub-block
        par = _Box(_Box(hw, 'datapath'), 'inner')
        t_ = par.wire('tie')
        py4hw.Constant(par, 'tie', 0, t_)
        py4hw.Buf(par, 'keep', t_, par.wire('kept'))
        with quiet():
            hw.getSimulator().clk(2)
    if scn.get('samename') and nin == 2 and par is hw:
        # the block sits in a user block that takes one operand through a port and makes the other one itself: a local
        # wire that carries the very name of the wire behind the port (names are unique per owner only)
        par = _Box(hw, 'scale')
        par.addIn(feed[0].name, feed[0])
        par.addIn('other', feed[1])
        local = par.wire(feed[0].name, 32)
        py4hw.Buf(par, 'copy', feed[1], local)
        feed = [feed[0], local]
    with quiet():
        if blk == 'add':
            outs['r'] = hw.wire('r', 32)
            py4hw.FPAdder_SP(par, 'dut', feed[0], feed[1], outs['r'])
        elif blk == 'mul':
            outs['r'] = hw.wire('r', 32)
            py4hw.FPMult_SP(par, 'dut', feed[0], feed[1], outs['r'])
        elif blk in ('cmp', 'cmpabs'):
            for k in ('gt', 'eq', 'lt'):
                outs[k] = hw.wire(k)
            py4hw.FPComparator_SP(par, 'dut', feed[0], feed[1], outs['gt'], outs['eq'], outs['lt'], absolute=(blk == 'cmpabs'))
        elif blk == 'i2f':
            outs['r'] = hw.wire('r', 32)
            outs['p_lost'] = hw.wire('p_lost')
            py4hw.InttoFP_SP(par, 'dut', feed[0], outs['r'], outs['p_lost'])
        else:
            outs['r'] = hw.wire('r', 32)
            for k in ('p_lost', 'denorm', 'invalid'):
                outs[k] = hw.wire(k)
            py4hw.FPtoInt_SP(par, 'dut', feed[0], outs['r'], outs['p_lost'], outs['denorm'], outs['invalid'])
    return hw, ins, outs


def check(blk, vec, o, st, si, other=None):
    """the statement's clauses, nothing more.  Returns True if the vector was inside the domain."""
    V = lambda **kw: Violation('fp', 'fp:%s:%s' % (blk, kw['what']), si, kw['detail'])
    if blk in ('add', 'mul', 'cmp', 'cmpabs'):
        a, b = vec
        if not (is_normal_enc(a) and is_normal_enc(b)):
            return False
        va, vb = val(a), val(b)
    if blk in ('cmp', 'cmpabs'):
        if blk == 'cmpabs':
            va, vb = abs(va), abs(vb)
        exp = (int(va > vb), int(va == vb), int(va < vb))
        got = (o['gt'], o['eq'], o['lt'])
        if va == vb:
            st.probe('cmp_equal')
        if got != exp:
            raise V(what='order', detail='a=%#010x b=%#010x (gt,eq,lt)=%s expected %s' % (a, b, got, exp))
        return True
    if blk == 'mul':
        exact = va * vb
        E = ilog2(exact)
        if not (-126 <= E <= 127):
            return False
        st.probe('mul_exact_normal')
        r = o['r']
        err = abs(val(r) - exact)
        ulp = Fraction(2) ** (E - 23)
        if not is_normal_enc(r) or err >= ulp:
            raise V(what='ulp', detail='a=%#010x b=%#010x r=%#010x error %.3f ulp (bound: < 1)' % (a, b, r, float(err / ulp)))
        if other is not None and other != r:
            raise V(what='commutative', detail='a=%#010x b=%#010x: a*b=%#010x b*a=%#010x' % (a, b, r, other))
        return True
    if blk == 'add':
        exact = va + vb
        gap = abs(((a >> 23) & 0xFF) - ((b >> 23) & 0xFF))
        if exact == 0:
            return False
        E = ilog2(exact)
        if not (-126 <= E <= 127):
            return False
        if gap >= 24:
            st.probe('add_gap_ge_24')
        if gap >= 32:
            st.probe('add_gap_ge_32')
        big = max(abs(va), abs(vb))
        if (va < 0) != (vb < 0) and E < ilog2(big) - 2:
            st.probe('add_cancellation')
        st.state('add', gap)
        r = o['r']
        vr = val(r)
        ulp = Fraction(2) ** (ilog2(big) - 23)
        if (vr < 0) != (exact < 0) or vr == 0:
            raise V(what='sign', detail='a=%#010x b=%#010x r=%#010x: result sign differs from the exact sum %.6g' % (a, b, r, float(exact)))
        err = abs(vr - exact)
        if err >= 2 * ulp:
            raise V(what='ulp', detail='a=%#010x b=%#010x (exponent gap %d) r=%#010x error %.3f ulp of the larger operand (bound: < 2)' % (
                a, b, gap, r, float(err / ulp)))
        if other is not None and other != r:
            raise V(what='commutative', detail='a=%#010x b=%#010x: a+b=%#010x b+a=%#010x' % (a, b, r, other))
        return True
    if blk == 'i2f':
        a = vec[0]
        sa = a - (1 << 32) if a >> 31 else a
        mag = abs(sa)
        if mag == 0:
            exp_v, lost = Fraction(0), 0
        else:
            k = mag.bit_length()
            drop = max(0, k - 24)
            tr = (mag >> drop) << drop
            lost = int(tr != mag)
            exp_v = Fraction(-tr if sa < 0 else tr)
        st.probe('i2f_lost' if lost else 'i2f_exact')
        st.state('i2f', mag.bit_length())
        r = o['r']
        if val(r) != exp_v or (mag != 0 and not is_normal_enc(r)):
            raise V(what='value', detail='int %d -> r=%#010x = %s, expected %s (truncation toward zero)' % (sa, r, float(val(r)), float(exp_v)))
        if o['p_lost'] != lost:
            raise V(what='p_lost', detail='int %d: p_lost=%d expected %d' % (sa, o['p_lost'], lost))
        return True
    # f2i
    a = vec[0]
    if not is_normal_enc(a):
        return False
    va = val(a)
    st.state('f2i', ilog2(va))
    if abs(va) >= 1 << 31:
        st.probe('f2i_invalid')
        if o['invalid'] != 1:
            raise V(what='invalid', detail='a=%#010x magnitude >= 2**31 but invalid=%d' % (a, o['invalid']))
        return True
    tr = int(abs(va))
    lost = int(Fraction(tr) != abs(va))
    if abs(va) < 1:
        st.probe('f2i_small')
    elif lost:
        st.probe('f2i_fraction')
    elif tr & 1:
        st.probe('f2i_exact_odd')
    exp_r = (-tr if va < 0 else tr) & 0xFFFFFFFF
    if o['invalid'] != 0:
        raise V(what='invalid', detail='a=%#010x (%s) magnitude below 2**31 flagged invalid' % (a, float(va)))
    if o['r'] != exp_r:
        raise V(what='value', detail='a=%#010x (%s) -> r=%#010x expected %#010x' % (a, float(va), o['r'], exp_r))
    if o['p_lost'] != lost:
        raise V(what='p_lost', detail='a=%#010x (%s): p_lost=%d expected %d' % (a, float(va), o['p_lost'], lost))
    return True


def run(scn, log, st):
    blk = scn['blk']
    hw, ins, outs = build(scn)
    drivers = scn_drivers[0]
    if drivers is not None:
        st.probe('operands_from_constant_blocks' if scn.get('src') == 'const' else 'operands_from_helper_constants')
    time_zero = bool(scn.get('time_zero')) and not scn['inregs'] and not scn.get('late_dut') and bool(scn['steps'])
    if time_zero:
        for i_, v_ in enumerate(scn['steps'][0]['vec']):
            if drivers is None:
                ins[i_].put(v_)
            else:
                drivers[i_].value = v_
        st.probe('outputs_read_at_time_zero')
    tz = [time_zero]
    st.sched(scn.get('perm'), tuple(tuple(x['faults']) for x in scn['steps']))
    if scn.get('perm') is not None:
        seams.perm_children(hw, random.Random(scn['perm']), st)
    with quiet():
        sim = hw.getSimulator()
    indomain = 0

    how = scn.get('settle', 'clk1') if not scn['inregs'] else 'clk1'
    if scn.get('late_dut'):
        st.fault('late_add')
        st.probe('block_added_after_simulation')
    elif scn.get('samename') and len(ins) == 2:
        st.probe('operand_wires_with_one_name')

    def apply(vec, settle=True):
        for i_, (w, v) in enumerate(zip(ins, vec)):
            if drivers is None:
                w.put(v)
            else:
                drivers[i_].value = v
        with quiet():
            if not settle:
                pass                    # nothing but the creation of the simulator has happened
            elif how == 'clk0':
                sim.clk(0)              # settle only, no edge
                st.probe('settled_by_clk0')
            elif how == 'prop':
                sim.propagateAll()
            else:
                sim.clk(1)
        return {k: w.get() for k, w in outs.items()}
    for si, step in enumerate(scn['steps'], 1):
        for f in step['faults']:
            if f == 'resort':
                with quiet():
                    sim = hw.getSimulator()
                st.fault('resort')
            elif f == 'sim_restart':
                with quiet():
                    sim = seams.restart_simulator(hw, st)
            else:
                sim.propagateAll()
                st.fault('extra_settle')
        vec = step['vec']
        other = None
        if tz[0] and si == 1 and not step['faults']:
            o = apply(vec, settle=False)
            tz[0] = False
            if blk in ('add', 'mul'):
                other = apply([vec[1], vec[0]])['r']
                o2 = apply(vec)
                if o2 != o:
                    raise Violation('fp', 'fp:%s:time-zero' % blk, si, 'outputs right after the creation of the simulator %s, after settling the same operands again %s' % (o, o2))
        else:
            if blk in ('add', 'mul'):
                other = apply([vec[1], vec[0]])['r']
                st.cycles += 1
            o = apply(vec)
        st.cycles += 1
        if check(blk, vec, o, st, si, other):
            indomain += 1
        if si % 16 == 1:
            bad = seams.topo_order_violations(sim)
            if bad:
                raise Violation('order', 'topo-order', si, '%s before its driver %s' % (bad[0][1], bad[0][0]))
            local_fixpoint(sim, si, 'cycle %d' % si)
            seams.check_wire_ranges(hw, 'cycle %d' % si, si)
        seams.check_prepared_empty('cycle %d' % si, si)
        log.add(si, vec, sorted(o.items()))
    if indomain >= 10 and st.faults:
        st.nontrivial = True


def shrink(scn):
    yield from shrink_list(scn, 'steps', 1)
    if scn.get('perm') is not None:
        yield dict(scn, perm=None)
    if scn['inregs']:
        yield dict(scn, inregs=False)
    if any(s['faults'] for s in scn['steps']):
        yield dict(scn, steps=[dict(s, faults=[]) for s in scn['steps']])

"""C09 - storage and sequential blocks follow their reference state machines.

One sequential library block per run, driven from power-up by a seeded Markov history of
control and data inputs (bursts, long holds, reset/enable/increment collisions, push+pop
together, pushes beyond depth, pops when empty, same-address read/write); the scheduler
permutes the visit order of the block's internal sequential leaves before every edge and
splits / re-sorts / restarts the run.  Oracle: the documented state machine (dsim/catalog.py)
after every call.
"""
import random

from ..core import Violation, shrink_list, h64
from .. import seams, netlist
from ..catalog import KINDS, kinds_with, Pool, rand_width
from ..seams import quiet

PROP = 'C09'
TIERS = {'quick': 7500, 'thorough': 400000}
RULE = ('each run: one sequential library block (Reg with all option combinations, TReg, Counter, ModuloCounter, '
        'StepUpCounter, DelayLine, PipelinePhase, ShiftRegisterBidirectional, Stack_ShiftRegister, EdgeDetector, '
        'ClockDivider, SynchronousMemory, DualPortSynchronousMemory) at seeded widths/depths/moduli/reset values, '
        '30-400 cycles of Markov-generated inputs from power-up; non-trivial = the block left its power-up state '
        'and >=1 control collision or fault occurred; distinct = distinct run digests; distinct_states = distinct '
        '(kind, model state, input vector) triples visited')
REAL = ['py4hw sequential library blocks', 'py4hw.simulation.Simulator']
STUB = ['stimulus (wire.put between clk calls)']
ASSUMPTIONS = ['state machines in dsim/catalog.py are the documented ones; power-up: output wire 0, held value = reset value']
PROBES = ['long_run', 'block_added_after_simulation', 'left_powerup', 'control_collision', 'wrap_around', 'stack_overfill', 'stack_pop_empty', 'same_addr_rw']

SEQ = [k for k in kinds_with(seq=True) if k.name != 'Sequence']


def gen(rs, tier, index):
    rng = rs.get('design')
    k = rng.choice(SEQ)
    pool = Pool(rng, max_inputs=0)
    pool.pick = lambda w: pool.new_input(w)           # every port gets its own primary input
    pool.any = lambda lo=1, hi=None: pool.new_input(rand_width(rng, lo, min(hi or 64, 64)))
    params, ins, ows = k.plan(rng, pool)
    d = {'inputs': pool.inputs, 'nodes': [{'id': 0, 'kind': k.name, 'p': params, 'ins': ins, 'ow': ows,
                                           'grp': rng.choice([[], [], ['g0'], ['g0', 'g1']])}],
         'outputs': ['n0.%d' % j for j in range(len(ows))], 'order': [0]}
    sr = rs.get('stimulus')
    fr = rs.get('faults')
    ncyc = sr.choice([30, 60, 120]) if tier == 'quick' else sr.choice([60, 150, 400])
    long_run = fr.random() < 0.03
    if long_run:
        # a long run: thousands of edges (a counter, a list or an index inside the block or the simulator wraps or fills up)
        ncyc = fr.choice([300, 600, 1100, 2200, 4500]) if tier == 'quick' else fr.choice([1100, 4500, 9000, 20000])
    # Markov input generator: each input holds its value with its own probability
    hold = [sr.choice([0.0, 0.3, 0.6, 0.9, 0.97]) for _ in d['inputs']]
    p1 = [sr.choice([0.1, 0.5, 0.9]) for _ in d['inputs']]
    cur = [0] * len(d['inputs'])
    steps = []
    c = 0
    si = 0
    while c < ncyc:
        for j, i in enumerate(d['inputs']):
            if sr.random() >= hold[j]:
                w = i['w']
                if w == 1:
                    cur[j] = 1 if sr.random() < p1[j] else 0
                elif w <= 4 and sr.random() < 0.5:
                    cur[j] = sr.choice([cur[j], (cur[j] + 1) & ((1 << w) - 1), sr.getrandbits(w)])
                else:
                    cur[j] = netlist.gen_vector(sr, [i])[0]
        n = 1 if fr.random() < 0.85 else fr.randint(2, 6)
        if long_run and fr.random() < 0.7:
            n = fr.randint(10, 120)
        parts = [n]
        if n > 1 and fr.random() < 0.5:
            a = fr.randint(1, n - 1)
            parts = [a, n - a]
        faults = [f for f in ('resort', 'sim_restart') if fr.random() < 0.03]
        steps.append({'vec': list(cur), 'n': n, 'parts': parts, 'faults': faults, 'pseed': rs.sub('p%d' % si)})
        c += n
        si += 1
    # late_dut: the simulator exists and has run before the block is instantiated (inside a nested sub-block or at the top)
    return {'design': d, 'steps': steps, 'late_dut': fr.choice([None, None, None, None, 0, 2])}


def run(scn, log, st):
    d = scn['design']
    node = d['nodes'][0]
    kind = node['kind']
    if sum(s_['n'] for s_ in scn['steps']) > 256:
        st.probe('long_run')
    log.add('kind', kind, repr(sorted(node['p'].items())), node['ow'])
    b = netlist.Built(d)
    if scn.get('late_dut') is not None:
        for i in d['inputs']:
            b.wire(i['name'])
        with quiet():
            b.hw.getSimulator().clk(scn['late_dut'])
        st.fault('late_add')
        st.probe('block_added_after_simulation')
    b.build()
    with quiet():
        sim = b.hw.getSimulator()
    ref = netlist.RefModel(d)
    ref.settle()
    if scn.get('late_dut') is None:
        # (a simulator that already existed is re-sorted by getSimulator(), not re-settled: combinational outputs of
        # the new block are compared from the first clk() on)
        netlist.compare(b, ref.vals, 0, 'at power-up', sigprefix='sm')
    init_state = repr(ref.state[0])
    names = [i['name'] for i in d['inputs']]
    for si, step in enumerate(scn['steps'], 1):
        rng = random.Random(step['pseed'])
        for f in step['faults']:
            if f == 'resort':
                with quiet():
                    sim = b.hw.getSimulator()
                st.fault('resort')
            else:
                with quiet():
                    sim = seams.restart_simulator(b.hw, st)
            st.nontrivial = True
        seams.EdgeShuffler(sim, rng, st, kinds=('clockables',))
        vec = step['vec']
        b.set_inputs(vec)
        ref.set_inputs(vec)
        ref.settle()
        probes(kind, node, vec, ref, st)
        if len(step['parts']) > 1:
            st.fault('split_clk')
        for k in step['parts']:
            with quiet():
                sim.clk(k)
        for _ in range(step['n']):
            ref.edge()
        st.cycles += step['n']
        where = 'after cycle %d' % st.cycles
        netlist.compare(b, ref.vals, si, where, sigprefix='sm')
        seams.check_wire_ranges(b.hw, where, si)
        seams.check_prepared_empty(where, si)
        s = repr(ref.state[0])
        if s != init_state:
            st.probes['left_powerup'] = 1
        if len(s) < 200:
            st.state(kind, s, tuple(vec))
        log.add(si, h64(s), h64(tuple(w.get() for w in b.wires.values())))
    if st.probes.get('left_powerup') and (st.probes.get('control_collision') or st.faults):
        st.nontrivial = True


def probes(kind, node, vec, ref, st):
    ones = sum(1 for v, i in zip(vec, ref.desc['inputs']) if i['w'] == 1 and v)
    if ones >= 2:
        st.probe('control_collision')
    s = ref.state[0]
    if kind in ('Counter', 'ModuloCounter', 'StepUpCounter') and isinstance(s, int) and s != 0:
        w = node['ow'][0]
        if s == (1 << w) - 1 or (kind == 'ModuloCounter' and s == node['p']['mod'] - 1):
            st.probe('wrap_around')
    if kind == 'Stack_ShiftRegister':
        cells = s[0]
        if vec[1] and not vec[2] and cells[-1] != 0:
            st.probe('stack_overfill')
        if vec[2] and all(c == 0 for c in cells):
            st.probe('stack_pop_empty')
    if kind == 'SynchronousMemory' and vec[2] and vec[0] == vec[1]:
        st.probe('same_addr_rw')


def shrink(scn):
    yield from shrink_list(scn, 'steps', 1)
    if scn.get('late_dut') is not None:
        yield dict(scn, late_dut=None)
    for i, s in enumerate(scn['steps']):
        if s['n'] > 1 or s['faults']:
            c = dict(scn)
            c['steps'] = list(scn['steps'])
            c['steps'][i] = dict(s, n=1, parts=[1], faults=[])
            yield c
    # zero individual inputs across the whole history
    nin = len(scn['design']['inputs'])
    for j in range(nin):
        if any(s['vec'][j] for s in scn['steps']):
            c = dict(scn)
            c['steps'] = [dict(s, vec=s['vec'][:j] + [0] + s['vec'][j + 1:]) for s in scn['steps']]
            yield c

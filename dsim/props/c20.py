"""C20 - the hardware-in-the-loop UART command codec decodes and encodes exactly.

Real: CMDRequest, CMDResponse (also chained: start_resp of the decoder starts the encoder).
Fakes: a character producer (holds VALID and the character until READY & VALID; gaps 0-20
cycles or back-to-back), a response consumer with seeded READY, a fake DUT output table.
Oracle: a command-level reference parser gives the expected ordered sequence of
(action, number); every action wire must pulse exactly once per command with the right
number (mod the wire width); 'K n ;' must give n rising edges of clk_pulse; the characters
seen at VALID & READY must spell '=', the digits most significant first, '!'; bounded
progress once stalls stop.
"""
import random

import py4hw
from py4hw.emulation.HILWrapperUART import CMDRequest, CMDResponse

from ..core import Violation, shrink_list, h64
from .. import seams
from ..seams import quiet

PROP = 'C20'
TIERS = {'quick': 4500, 'thorough': 500000}
RULE = ('each run: a stream of 1-12 well-formed commands (I<n>=, <v>!, O<n>?, K<n>;) with 1-10 upper-case hex digits, '
        'or 1-8 direct responses of 1-8 nibbles, or decoder and encoder chained; producer gaps and consumer READY '
        'seeded; non-trivial = >= 2 commands handled and (a stall hit while a character was pending or characters '
        'arrived back-to-back); distinct = distinct run digests')
REAL = ['py4hw.emulation.HILWrapperUART.CMDRequest', 'py4hw.emulation.HILWrapperUART.CMDResponse', 'py4hw simulator']
STUB = ['character producer', 'response consumer', 'DUT output table']
ASSUMPTIONS = ['a new O<n>? is only sent after the previous response\'s "!" was taken (the encoder ignores start while busy; the statement does not forbid that)',
               'the consumer asserts READY independently of VALID (the encoder waits for READY before raising VALID)']
PROBES = ['cmd_I', 'cmd_V', 'cmd_O', 'cmd_K', 'K_zero', 'long_number', 'back_to_back_chars', 'consumer_stall', 'response', 'leading_zero_digit',
          'two_encoders', 'consumer_in_own_clock_domain', 'abandoned_mid_response', 'start_in_first_idle_cycle', 'more_digits_than_value_bits', 'K_count_wider_than_wires']

HEX = '0123456789ABCDEF'


def gen(rs, tier, index):
    rng = rs.get('design')
    mode = rng.choice(['req', 'req', 'resp', 'chain'])
    scn = {'mode': mode, 'prod_seed': rs.sub('prod'), 'cons_seed': rs.sub('cons'), 'perm_seed': rs.sub('perm'),
           'p_gap': rng.choice([0.0, 0.3, 0.8]), 'p_ready': rng.choice([1.0, 0.7, 0.3, 0.1]),
           'wi': rng.choice([1, 2, 4, 4, 8, 16]), 'wv': rng.choice([1, 3, 4, 8, 16, 32, 40]),
           'wvin': rng.choice([32, 32, 32, 4, 8, 12, 20])}      # width of the value wire of the encoder (digits beyond it are 0)

    def number(maxdigits=10):
        nd = rng.choice([1, 1, 2, 3, 4, 8, maxdigits])
        return ''.join(rng.choice(HEX) for _ in range(nd))
    cmds = []
    if mode == 'resp':
        for _ in range(rng.randint(1, 8)):
            size = rng.randint(1, 8)
            v = rng.choice([0, (1 << (4 * size)) - 1, rng.getrandbits(4 * size), rng.getrandbits(32)])
            # gap: idle cycles between the handshake of '!' and the next one-cycle start pulse (0 = the first idle cycle)
            cmds.append({'t': 'R', 'size': size, 'v': v, 'gap': rng.choice([0, 0, 1, 2, 3, 7])})
    else:
        for _ in range(rng.randint(1, 12)):
            t = rng.choice(['I', 'V', 'O', 'K'] if mode == 'chain' else ['I', 'V', 'O', 'K', 'I', 'V'])
            if t == 'K':
                n = rng.choice([0, 1, 2, 5, 17, 33])
                cmds.append({'t': 'K', 'n': '%X' % n if rng.random() < 0.7 else '%03X' % n})
            else:
                cmds.append({'t': t, 'n': number()})
        scn['table'] = [rng.getrandbits(32) for _ in range(16)]
        scn['size'] = rng.randint(1, 8)
    scn['cmds'] = cmds
    if mode == 'resp':
        fr = rs.get('faults')
        # dual: a second encoder (another UART channel) in the same system answers at overlapping times
        scn['dual'] = fr.random() < 0.3
        # cut: the run is abandoned this many cycles into one more response (the bench is stopped mid-response; a later
        # run in the same process must not see anything of it)
        scn['cut'] = fr.choice([None, None, 1, 3, 6])
        # sink: the consumer is a clocked block of the design (READY from a seeded pattern), optionally in a clock domain
        # of its own, instead of the test bench
        scn['sink'] = fr.choice([None, None, 'block', 'block_own_driver'])
        scn['pattern'] = [1 if fr.random() < scn['p_ready'] else 0 for _ in range(fr.randint(1, 9))] + [1]
    return scn


def text_of(c):
    return {'I': 'I%s=', 'V': '%s!', 'O': 'O%s?', 'K': 'K%s;'}[c['t']] % c['n']


def run(scn, log, st):
    if scn['mode'] == 'resp':
        run_resp(scn, log, st)
    else:
        run_req(scn, log, st, chain=scn['mode'] == 'chain')


def run_req(scn, log, st, chain):
    wi, wv = scn['wi'], scn['wv']
    hw = py4hw.HWSystem()
    ready, valid, c = hw.wire('ready'), hw.wire('valid'), hw.wire('c', 8)
    index_in, v_in, index_out = hw.wire('index_in', wi), hw.wire('v_in', wv), hw.wire('index_out', wi)
    set_ii, set_v, set_io = hw.wire('set_index_in'), hw.wire('set_v_in'), hw.wire('set_index_out')
    clk_pulse, start_resp = hw.wire('clk_pulse'), hw.wire('start_resp')
    CMDRequest(hw, 'req', ready, valid, c, index_in, v_in, index_out, set_ii, set_v, set_io, clk_pulse, start_resp)
    if chain:
        wvin = scn.get('wvin', 32)
        vin, size = hw.wire('vin', wvin), hw.wire('size', 4)
        r_ready, r_valid, r_v = hw.wire('r_ready'), hw.wire('r_valid'), hw.wire('r_v', 8)
        CMDResponse(hw, 'resp', vin, size, start_resp, r_ready, r_valid, r_v)
        size.put(scn['size'])
    with quiet():
        sim = hw.getSimulator()
    seams.EdgeShuffler(sim, random.Random(scn['perm_seed']), st)
    prng, crng = random.Random(scn['prod_seed']), random.Random(scn['cons_seed'])
    # expected events from the command-level reference parser
    expect = []
    expect_resp = []
    for cm in scn['cmds']:
        n = int(cm['n'], 16)
        st.probe('cmd_' + cm['t'])
        if len(cm['n']) >= 8:
            st.probe('long_number')
        if cm['t'] == 'K' and n >= (1 << max(wi, wv)):
            st.probe('K_count_wider_than_wires')
        if cm['t'] == 'I':
            expect.append(('set_index_in', n & ((1 << wi) - 1)))
        elif cm['t'] == 'V':
            expect.append(('set_v_in', n & ((1 << wv) - 1)))
        elif cm['t'] == 'O':
            expect.append(('set_index_out', n & ((1 << wi) - 1)))
            expect.append(('start_resp', None))
            if chain:
                val = scn['table'][(n & ((1 << wi) - 1)) % 16] & ((1 << scn.get('wvin', 32)) - 1)
                digs = ''.join(HEX[(val >> (4 * k)) & 0xF] for k in range(scn['size'] - 1, -1, -1))
                expect_resp.append('=' + digs + '!')
        else:
            if n == 0:
                st.probe('K_zero')
            expect += [('clk_pulse', None)] * n
    chars = []
    for ci, cm in enumerate(scn['cmds']):
        for ch in text_of(cm):
            chars.append((ch, ci))
    events = []
    resp_chars = ''
    resp_done = 0
    prev = {'set_index_in': 0, 'set_v_in': 0, 'set_index_out': 0, 'start_resp': 0, 'clk_pulse': 0}
    wires = {'set_index_in': (set_ii, index_in), 'set_v_in': (set_v, v_in), 'set_index_out': (set_io, index_out),
             'start_resp': (start_resp, None), 'clk_pulse': (clk_pulse, None)}
    cur = None
    gap = 0
    low = 0
    t = 0
    idle = 0
    responses_started = 0
    last_hs = -10
    limit = 200 + sum(12 + 4 * len(text_of(cm)) + (2 * int(cm['n'], 16) + 4 if cm['t'] == 'K' else 0) + (30 if cm['t'] == 'O' else 0) for cm in scn['cmds']) * 12
    while t < limit:
        if cur is None and chars and gap == 0:
            nxt = chars[0]
            # workload constraint: the 'O' of a new request waits until the previous response was taken
            if not (chain and nxt[0] == 'O' and resp_done < responses_started):
                cur = chars.pop(0)
        elif gap > 0:
            gap -= 1
        valid.put(1 if cur else 0)
        c.put(ord(cur[0]) if cur else 0)
        if chain:
            r = 1 if (crng.random() < scn['p_ready'] or low >= 25) else 0
            low = 0 if r else low + 1
            r_ready.put(r)
            if index_out.get() is not None:
                vin.put(scn['table'][index_out.get() % 16])
        sim.propagateAll()
        if cur and ready.get():
            if t - last_hs <= 4:
                st.probe('back_to_back_chars')
            last_hs = t
            if cur[0] == '?':
                responses_started += 1
            cur = None
            gap = prng.randint(1, 20) if prng.random() < scn['p_gap'] else 0
        for name, (w, numw) in wires.items():
            v = w.get()
            if v and not prev[name]:
                events.append((name, numw.get() if numw is not None else None))
            prev[name] = v
        if chain:
            if r_valid.get() and r:
                ch = chr(r_v.get())
                resp_chars += ch
                if ch == '!':
                    resp_done += 1
                    st.probe('response')
            if r_valid.get() and not r:
                st.probe('consumer_stall')
                st.fault('stall')
        with quiet():
            sim.clk(1)
        t += 1
        st.cycles += 1
        if not chars and cur is None:
            idle += 1
            if idle > 60 + 2 * 20 and (not chain or resp_done >= responses_started):
                if len(events) >= len(expect):
                    break
    seams.check_prepared_empty('end', t)
    seams.check_wire_ranges(hw, 'end', t)
    log.add('cmds', ''.join(text_of(cm) for cm in scn['cmds']), 'events', events, 'resp', resp_chars)
    if events != expect:
        k = next((i for i in range(min(len(events), len(expect))) if events[i] != expect[i]), min(len(events), len(expect)))
        got = events[k] if k < len(events) else None
        exp = expect[k] if k < len(expect) else None
        kind = (exp or got)[0]
        raise Violation('codec', 'decode:%s' % kind, k, 'commands %r: event %d is %s, reference parser expects %s (%d events seen, %d expected)' % (
            ''.join(text_of(cm) for cm in scn['cmds']), k, got, exp, len(events), len(expect)))
    if chain and resp_chars != ''.join(expect_resp):
        raise Violation('codec', 'encode:chars', len(resp_chars), 'responses %r, expected %r' % (resp_chars, ''.join(expect_resp)))
    if len(scn['cmds']) >= 2 and (st.probes.get('back_to_back_chars') or st.probes.get('consumer_stall')):
        st.nontrivial = True


class _Sink(py4hw.Logic):
    """ready/valid character consumer as a clocked block: READY follows a fixed pattern"""

    def __init__(self, parent, name, ready, valid, v, pattern):
        super().__init__(parent, name)
        self.ready = self.addOut('ready', ready)
        self.valid = self.addIn('valid', valid)
        self.v = self.addIn('v', v)
        self.pattern = pattern
        self.t = 0
        self.chars = []

    def clock(self):
        if self.valid.get() and self.ready.get():
            self.chars.append(chr(self.v.get()))
        self.ready.prepare(self.pattern[self.t % len(self.pattern)])
        self.t += 1


def run_resp_blocksink(scn, log, st):
    """the consumer is a block of the design (own clock domain optional); 1-2 encoders answer at the same time"""
    hw = py4hw.HWSystem()
    wvin = scn.get('wvin', 32)
    chans = []
    for tag in (['a', 'b'] if scn.get('dual') else ['a']):
        vin, size, start = hw.wire(tag + 'vin', wvin), hw.wire(tag + 'size', 4), hw.wire(tag + 'start')
        ready, valid, v = hw.wire(tag + 'ready'), hw.wire(tag + 'valid'), hw.wire(tag + 'v', 8)
        pat = list(scn['pattern']) if tag == 'a' else list(reversed(scn['pattern']))
        sink = _Sink(hw, tag + 'sink', ready, valid, v, pat)
        if scn['sink'] == 'block_own_driver':
            sink.clockDriver = py4hw.ClockDriver('clk_' + tag, base=hw.clockDriver)
            st.probe('consumer_in_own_clock_domain')
        CMDResponse(hw, tag + 'resp', vin, size, start, ready, valid, v)
        chans.append({'vin': vin, 'size': size, 'start': start, 'sink': sink, 'exp': ''})
    if len(chans) > 1:
        st.probe('two_encoders')
    with quiet():
        sim = hw.getSimulator()
    seams.EdgeShuffler(sim, random.Random(scn['perm_seed']), st)
    prng = random.Random(scn['prod_seed'])
    with quiet():
        sim.clk(2)
    for ri, cm in enumerate(scn['cmds']):
        for ci, ch in enumerate(chans):
            val = (cm['v'] if ci == 0 else (cm['v'] * 2654435761 + ri)) & ((1 << wvin) - 1)
            sz = cm['size'] if ci == 0 else 1 + (cm['size'] + ri) % 8
            ch['vin'].put(val)
            ch['size'].put(sz)
            ch['start'].put(1)
            ch['exp'] += '=' + ''.join(HEX[(val >> (4 * k)) & 0xF] for k in range(sz - 1, -1, -1)) + '!'
        with quiet():
            sim.clk(1)
        for ch in chans:
            ch['start'].put(0)
        budget = 60 + 12 * len(scn['pattern']) * 10
        n = 0
        while n < budget and any(len(ch['sink'].chars) < len(ch['exp']) for ch in chans):
            with quiet():
                sim.clk(1)
            n += 1
            st.cycles += 1
        st.probe('response')
        for ci, ch in enumerate(chans):
            got = ''.join(ch['sink'].chars)
            log.add(ri, ci, ch['exp'], got)
            if got != ch['exp']:
                cls = 'progress' if ch['exp'].startswith(got) else 'chars'
                raise Violation('codec', 'encode:%s' % cls, ri, 'encoder %d, response %d: got %r expected %r (consumer is a block, pattern %s, %s)' % (
                    ci, ri, got[-24:], ch['exp'][-24:], scn['pattern'], scn['sink']))
        with quiet():
            sim.clk(cm.get('gap', 3) + 2)
    if scn.get('cut') is not None:
        for ch in chans:
            ch['vin'].put(0xDEADBEEF & ((1 << wvin) - 1))
            ch['size'].put(8)
            ch['start'].put(1)
        with quiet():
            sim.clk(1 + scn['cut'])
        st.fault('abandoned_mid_response')
        st.probe('abandoned_mid_response')
    seams.check_prepared_empty('end', 0)
    seams.check_wire_ranges(hw, 'end', 0)
    st.nontrivial = len(scn['cmds']) >= 2 and 0 in scn['pattern']


def run_resp(scn, log, st):
    if scn.get('sink'):
        return run_resp_blocksink(scn, log, st)
    hw = py4hw.HWSystem()
    wvin = scn.get('wvin', 32)
    vin, size, start = hw.wire('vin', wvin), hw.wire('size', 4), hw.wire('start_resp')
    ready, valid, v = hw.wire('ready'), hw.wire('valid'), hw.wire('v', 8)
    CMDResponse(hw, 'resp', vin, size, start, ready, valid, v)
    with quiet():
        sim = hw.getSimulator()
    seams.EdgeShuffler(sim, random.Random(scn['perm_seed']), st)
    crng, prng = random.Random(scn['cons_seed']), random.Random(scn['prod_seed'])
    t = 0
    for ri, cm in enumerate(scn['cmds']):
        val = cm['v'] & ((1 << wvin) - 1)
        if 4 * cm['size'] > wvin:
            st.probe('more_digits_than_value_bits')
        digs = ''.join(HEX[(val >> (4 * k)) & 0xF] for k in range(cm['size'] - 1, -1, -1))
        if digs[0] == '0':
            st.probe('leading_zero_digit')
        exp = '=' + digs + '!'
        got = ''
        vin.put(val)
        size.put(cm['size'])
        start.put(1)
        with quiet():
            sim.clk(1)
        start.put(0)
        # the value may change after it was sampled
        if prng.random() < 0.5:
            vin.put(prng.getrandbits(wvin))
        low = 0
        budget = 40 + 40 * (cm['size'] + 2)
        n = 0
        while n < budget:
            r = 1 if (crng.random() < scn['p_ready'] or low >= 8) else 0
            low = 0 if r else low + 1
            ready.put(r)
            sim.propagateAll()
            if valid.get() and r:
                got += chr(v.get())
                if got.endswith('!'):
                    n = budget
            if valid.get() and not r:
                st.probe('consumer_stall')
                st.fault('stall')
            with quiet():
                sim.clk(1)
            n += 1
            t += 1
            st.cycles += 1
        st.probe('response')
        log.add(ri, exp, got)
        if got != exp:
            cls = 'progress' if exp.startswith(got) else 'chars'
            raise Violation('codec', 'encode:%s' % cls, ri, 'response %d: value %#x size %d nibbles: got %r expected %r' % (ri, val, cm['size'], got, exp))
        # the next start pulse comes `gap` cycles after the handshake of '!' (0: in the first idle cycle)
        ready.put(1)
        if cm.get('gap', 3) == 0 and ri + 1 < len(scn['cmds']):
            st.probe('start_in_first_idle_cycle')
        with quiet():
            sim.clk(cm.get('gap', 3))
    if scn.get('cut') is not None:
        vin.put(0xDEADBEEF & ((1 << wvin) - 1))
        size.put(8)
        start.put(1)
        ready.put(1)
        with quiet():
            sim.clk(1 + scn['cut'])
        st.fault('abandoned_mid_response')
        st.probe('abandoned_mid_response')
    seams.check_prepared_empty('end', t)
    seams.check_wire_ranges(hw, 'end', t)
    if len(scn['cmds']) >= 2 and st.probes.get('consumer_stall'):
        st.nontrivial = True


def shrink(scn):
    yield from shrink_list(scn, 'cmds', 1)
    if scn['p_ready'] != 1.0:
        yield dict(scn, p_ready=1.0)
    if scn['p_gap'] != 0.0:
        yield dict(scn, p_gap=0.0)
    if scn.get('wvin', 32) != 32:
        yield dict(scn, wvin=32)
    if scn.get('dual'):
        yield dict(scn, dual=False)
    if scn.get('cut') is not None:
        yield dict(scn, cut=None)
    if scn.get('sink') == 'block_own_driver':
        yield dict(scn, sink='block')
    for i, cm in enumerate(scn['cmds']):
        if cm.get('gap') not in (None, 3):
            c2 = dict(scn)
            c2['cmds'] = list(scn['cmds'])
            c2['cmds'][i] = dict(cm, gap=3)
            yield c2
        if 'n' in cm and len(cm['n']) > 1:
            c2 = dict(scn)
            c2['cmds'] = list(scn['cmds'])
            c2['cmds'][i] = dict(cm, n=cm['n'][-1])
            yield c2

"""C03 - emitted Verilog is self-consistent: it parses, resolves and elaborates.

Honest scope: a static property of the emitted text.  The simulator contributes the
*elaborator* (the front half of vsim, the precondition of executing anything) and the
call-history dimension shared with C19: generation interleaved with generation for other
circuits, generation that raised half-way and is then repeated (gen_crash), module text
requested for a sub-block, a caller-supplied createdStructures list.
Naming faults: wire / port / instance names drawn from reserved words, names that collide
after prefixing ('w_x' next to 'x', a port 'clk' next to the implicit clock, a port 'i_a'
next to instance 'a'), blocks that share a structureName() with different optional ports.
Oracle: vsim.parse + vsim.elaborate (rules of DESIGN 2.5, nothing debatable).
"""
import random

import py4hw

from ..core import Violation, shrink_list, h64, known_findings
from .. import seams, netlist, vsim
from ..catalog import KINDS, kinds_with
from ..seams import quiet
from .c01 import emittable_kinds, apply_exclusions

PROP = 'C03'
TIERS = {'quick': 3600, 'thorough': 140000}
RULE = ('each run: a seeded catalogue netlist (3-30 blocks, hierarchy 0-3) with seeded naming faults and a seeded history '
        'of generation calls (whole hierarchy, single module of a child, caller-supplied createdStructures, generation for '
        'another circuit in between, generation on a broken circuit that raises and is then repeated); every returned text '
        'is parsed and elaborated; non-trivial = >= 1 text elaborated and (a naming fault or a call-history fault was '
        'applied); distinct = distinct run digests')
REAL = ['py4hw.rtl_generation.VerilogGenerator', 'py4hw.transpilation (for behavioural leaves)', 'library blocks']
STUB = ['dsim/vsim parser + elaborator as the judge of legality']
ASSUMPTIONS = ['legality = the elaboration rules listed in dsim/vsim/README.md (declared once, not reserved, defined once, '
               'interfaces match, one driver per net bit); debatable rules are lenient']
_KF = known_findings()
PROBES = ['hundreds_of_modules', 'module_shared_by_instances', 'refused_then_repaired_shared_list', 'shared_created_structures', 'system_as_top', 'built_around_another_system', 'text_elaborated', 'reserved_name', 'gen_crash', 'regen_other', 'child_module', 'created_structures'] + [
    p for p, tok in (('prefix_collision', 'prefix-collision-w'), ('clk_port', 'port-named-clk'), ('inst_port_collision', 'port-vs-instance-name'))
    if not _KF.excluded(tok)]      # naming faults of open findings are kept out of the campaign (their reproducers are replayed instead)

RESERVED = ['reg', 'wire', 'output', 'input', 'signed', 'module', 'begin', 'end', 'assign', 'always', 'integer', 'logic', 'bit',
            # reserved words that are not purely alphabetic
            'tri0', 'tri1', 'supply0', 'supply1', 'pull0', 'strong1', 'weak0', 'highz1', 'bufif0', 'notif1', 'tranif0', 'rtranif1']


def gen(rs, tier, index):
    kf = known_findings()
    rng = rs.get('design')
    if rng.random() < (0.002 if tier == 'quick' else 0.001):
        return {'bulkmods': [rng.choice([300, 600, 600, 1000]), rs.sub('bulk')], 'design': None, 'order': None,
                'calls': [{'c': 'hier', 'fresh': True}], 'naming': [], 'other_seed': 0, 'late': None}
    comb, seqk = emittable_kinds()
    n = rng.choice([3, 5, 8, 14]) if tier == 'quick' else rng.choice([5, 12, 30])
    d = netlist.gen_design(rng, n, comb, hier_depth=rng.choice([0, 1, 2, 3]), feedback=rng.choice([0, 0.2]),
                           seq_kinds=seqk, seq_frac=rng.choice([0, 0.2, 0.4]), maxw=40)
    apply_exclusions(d, kf, rng)
    names, inst = {}, {}
    nf = rs.get('naming')
    faults = []
    sigw = netlist.sig_widths(d)
    inputs = [i['name'] for i in d['inputs']]
    outs = [r for r in d['outputs']]
    internal = [r for r in sigw if r[0] == 'n' and r not in d['outputs']]
    used = set()

    def take(lst):
        c = [x for x in lst if x not in names]
        return nf.choice(c) if c else None
    for _ in range(nf.randint(0, 3)):
        kind = nf.choice(['reserved_port', 'reserved_inst', 'reserved_wire', 'prefix', 'clk', 'instport'])
        if kind == 'reserved_port':
            r = take(inputs + outs)
            w = nf.choice([x for x in RESERVED if x not in used] or ['reg'])
            if r and w not in used:
                names[r] = w
                used.add(w)
                faults.append('reserved_name')
        elif kind == 'reserved_wire':
            r = take(internal)
            w = nf.choice(RESERVED)
            if r and w not in used:
                names[r] = w
                used.add(w)
                faults.append('reserved_name')
        elif kind == 'reserved_inst' and d['nodes']:
            nd = nf.choice(d['nodes'])
            w = nf.choice(RESERVED)
            if str(nd['id']) not in inst and ('inst:' + w) not in used:
                inst[str(nd['id'])] = w
                used.add('inst:' + w)
                faults.append('reserved_name')
        elif kind == 'prefix' and not kf.excluded('prefix-collision-w'):
            a, b_ = take(inputs + outs), take(internal)
            if a and b_ and 'x' not in used:
                names[a] = 'w_x'
                names[b_] = 'x'
                used.update(['x', 'w_x'])
                faults.append('prefix_collision')
        elif kind == 'clk' and not kf.excluded('port-named-clk'):
            a = take(internal)      # (the HWSystem itself owns a wire called clk, so the name is given to an inner signal)
            if a and 'clk' not in used:
                names[a] = 'clk'
                used.add('clk')
                faults.append('clk_port')
        elif kind == 'instport' and d['nodes'] and not kf.excluded('port-vs-instance-name'):
            a = take(inputs + outs)
            top_nodes = [nd for nd in d['nodes'] if not nd['grp'] and str(nd['id']) not in inst]
            if a and top_nodes and 'i_a' not in used:
                nd = nf.choice(top_nodes)
                names[a] = 'i_a'
                inst[str(nd['id'])] = 'a'
                used.update(['i_a', 'inst:a'])
                faults.append('inst_port_collision')
    d['names'] = names
    d['inst_names'] = inst
    if not inst and nf.random() < 0.12:
        netlist.underscore_names(d, nf)
        faults.append('underscore_names')
    fr = rs.get('faults')
    calls = []
    for _ in range(fr.randint(1, 4)):
        r = fr.random()
        if r < 0.1:
            calls.append({'c': 'hier_hw'})
        elif r < 0.5:
            calls.append({'c': 'hier', 'fresh': fr.random() < 0.5})
        elif r < 0.65:
            calls.append({'c': 'child', 'pick': fr.randrange(1 << 20), 'fresh': fr.random() < 0.5})
        elif r < 0.72:
            calls.append({'c': 'hier_created', 'fresh': fr.random() < 0.5})
        elif r < 0.78:
            calls.append({'c': 'shared_created', 'pick': fr.randrange(1 << 20), 'pick2': fr.randrange(1 << 20)})
        elif r < 0.9:
            calls.append({'c': 'regen_other', 'top': 'hw' if fr.random() < 0.4 else 'dut'})
        else:
            calls.append({'c': 'gen_crash'})
        if fr.random() < 0.08:
            # a project flow with one shared createdStructures list in which the first generation of a sub-design is refused
            # (a port left unconnected), the caller repairs the design and generates again
            calls.append({'c': 'created_repair', 'pick': fr.randrange(1 << 20), 'pick2': fr.randrange(1 << 20)})
    if not any(c['c'] in ('hier', 'hier_created', 'child', 'hier_hw', 'shared_created', 'created_repair') for c in calls):
        calls.append({'c': 'hier', 'fresh': True})
    order = list(d['order'])
    rng.shuffle(order)
    late = fr.randint(1, len(order) - 1) if (len(order) > 1 and fr.random() < 0.3) else None
    return {'design': d, 'order': order, 'calls': calls, 'naming': faults, 'other_seed': rs.sub('other'), 'late': late}


def other_circuit(seed):
    rng = random.Random(seed)
    comb, seqk = emittable_kinds()
    d = netlist.gen_design(rng, 4, comb, hier_depth=1, seq_kinds=seqk, seq_frac=0.3, maxw=16)
    apply_exclusions(d, known_findings(), rng)
    return netlist.Built(d).build()


def judge(text, top, si, what, scn, blackboxes=(), b=None):
    try:
        mods = vsim.parse(text)
    except vsim.VParseError as e:
        raise Violation('illegal-text', 'parse:%s%s' % (getattr(e, 'rule', 'syntax') or 'syntax', predicate(scn, b)), si,
                        '%s: text does not parse: %s' % (what, e))
    try:
        if top is None:
            top = mods[0].name
        defined = {m.name for m in mods}
        design = vsim.elaborate(mods, top, blackboxes=tuple(blackboxes))
    except vsim.VElabError as e:
        raise Violation('illegal-text', 'elab:%s%s' % (e.rule, predicate(scn, b)), si, '%s: text does not elaborate: %s' % (what, e))
    return design


def naming_faults(d):
    nm = set((d.get('names') or {}).values())
    inst = set((d.get('inst_names') or {}).values())
    tags = []
    if {'w_x', 'x'} <= nm:
        tags.append('prefix_collision')
    if 'clk' in nm:
        tags.append('clk_port')
    if 'i_a' in nm and 'a' in inst:
        tags.append('inst_port_collision')
    if (nm | inst) & set(RESERVED):
        tags.append('reserved_name')
    return tags


def structure_variants(b):
    """names shared by two emitted objects whose interfaces differ (judged on the real py4hw objects)"""
    seen = {}
    bad = set()
    for o in seams.walk(b.dut):
        if not hasattr(o, 'structureName'):
            continue
        try:
            nm = o.structureName()
        except Exception:
            continue
        iface = tuple((p.name, 'i', p.wire.getWidth()) for p in o.inPorts) + tuple((p.name, 'o', p.wire.getWidth()) for p in o.outPorts)
        if nm in seen and seen[nm] != iface:
            bad.add(type(o).__name__)
        seen.setdefault(nm, iface)
    return sorted(bad)


def predicate(scn, b=None):
    d = scn['design']
    tags = naming_faults(d)
    if b is not None:
        tags += ['variants-' + k for k in structure_variants(b)]
    if any(n['kind'] == 'OneHotMux' and len(set(n['ins'])) < len(n['ins']) for n in d['nodes']):
        tags.append('onehotmux-repeated-wire')
    if any(n['kind'] == 'SignExtend' and n['ow'][0] < netlist.sig_widths(d)[n['ins'][0]] for n in d['nodes']):
        tags.append('signextend-narrowing')
    return (':' + '+'.join(tags)) if tags else ''


def instantiated_modules(text):
    """names of modules instantiated but not defined in a single-module text (declared black boxes)"""
    mods = vsim.parse(text)
    defined = {m.name for m in mods}
    used = set()
    for m in mods:
        for it in m.items:
            nm = getattr(it, 'module', None)
            if nm is not None:
                used.add(nm)
    return tuple(sorted(used - defined))


def check_interchangeable(b, si, what, scn, st):
    """objects emitted under one module name must be interchangeable: every instance is bound to the body emitted for the
    first of them.  Judged on the module text each of them gives when it is asked for on its own."""
    from .c19 import canonical
    g = py4hw.VerilogGenerator(b.dut)
    groups = {}
    for o in seams.walk(b.dut):
        if o is b.dut or g.isInlinable(o):
            continue
        try:
            nm = py4hw.getVerilogModuleName(o)
        except Exception:
            continue
        groups.setdefault(nm, []).append(o)
    for nm in sorted(groups):
        objs = groups[nm]
        if len(objs) < 2:
            continue
        st.probe('module_shared_by_instances')
        ref = None
        for o in objs[:5]:
            try:
                with quiet():
                    t = canonical(py4hw.VerilogGenerator(b.dut).getVerilog(obj=o))
            except Exception:
                continue
            # the default of a module parameter is the value of the instance the text was asked for; every instance
            # overrides it ( #(.STEP(v)) ), so it is no part of what the instances share
            import re
            t = re.sub(r'(parameter\s+\w+)\s*=\s*[^,)\n]+', r'\1', t)
            if ref is None:
                ref = (o, t)
            elif t != ref[1]:
                diff = next((x for x in zip(ref[1].split('\n'), t.split('\n')) if x[0] != x[1]), ('', ''))
                raise Violation('shared-name', 'shared-name:%s%s' % (type(o).__name__, predicate(scn, b)), si,
                                '%s: %s and %s are both emitted as module %s but their bodies differ: %r vs %r' % (
                                    what, ref[0].getFullPath(), o.getFullPath(), nm, diff[0][:120], diff[1][:120]))


def run(scn, log, st):
    if scn.get('bulkmods'):
        scn = dict(scn, design=netlist.bulk_modules(*scn['bulkmods']))
        scn['order'] = list(scn['design']['order'])
        st.probe('hundreds_of_modules')
    d = scn['design']
    nfs = naming_faults(d)
    for f in nfs:
        st.probe(f)
    if nfs:
        st.fault('naming', len(nfs))
    if scn.get('late'):
        # construction interleaved with the construction of another system: part of the circuit, another HWSystem, the rest
        b = netlist.Built(d).build(scn['order'][:scn['late']])
        other_circuit(scn['other_seed'] ^ 2)
        b.build(scn['order'])
        st.fault('late_add')
        st.probe('built_around_another_system')
    else:
        b = netlist.Built(d).build(scn['order'])
    if structure_variants(b):
        st.probe('shared_structure_variants')
    gen_obj = py4hw.VerilogGenerator(b.dut)
    texts = 0
    for si, call in enumerate(scn['calls'], 1):
        c = call['c']
        if c == 'regen_other':
            ob = other_circuit(scn['other_seed'])
            with quiet():
                try:
                    py4hw.VerilogGenerator(ob.hw if call.get('top') == 'hw' else ob.dut).getVerilogForHierarchy()
                except Exception:
                    pass
            st.probe('regen_other')
            st.fault('regen_other')
            continue
        if c == 'gen_crash':
            ob = other_circuit(scn['other_seed'] ^ 1)
            # break it: detach one instance port, generation must raise
            victim = next((o for o in seams.walk(ob.dut) if o is not ob.dut and o.inPorts and o.parent is not None), None)
            if victim is not None:
                victim.inPorts[0].wire = None
                try:
                    with quiet():
                        py4hw.VerilogGenerator(ob.dut).getVerilogForHierarchy()
                except Exception:
                    st.probe('gen_crash')
                    st.fault('gen_crash')
            continue
        g = py4hw.VerilogGenerator(b.dut) if call.get('fresh') else gen_obj
        try:
            with quiet():
                if c == 'created_repair':
                    cands = [o for o in seams.walk(b.dut) if o is not b.dut and o.parent is b.dut and not g.isInlinable(o) and not o.isPrimitive()
                             and any(ch.inPorts and ch.inPorts[0].wire is not None for ch in o.children.values())]
                    if not cands:
                        continue
                    o1 = cands[call['pick'] % len(cands)]
                    vict = [ch for ch in o1.children.values() if ch.inPorts and ch.inPorts[0].wire is not None]
                    port = vict[call['pick2'] % len(vict)].inPorts[0]
                    shared = []
                    saved, port.wire = port.wire, None
                    try:
                        py4hw.VerilogGenerator(o1).getVerilogForHierarchy(noInstanceNumberInTopEntity=False, createdStructures=shared)
                        refused_first = False
                    except Exception:
                        refused_first = True
                    port.wire = saved
                    if not refused_first:
                        continue
                    text = py4hw.VerilogGenerator(o1).getVerilogForHierarchy(noInstanceNumberInTopEntity=False, createdStructures=shared)
                    text += '\n' + py4hw.VerilogGenerator(b.dut).getVerilogForHierarchy(createdStructures=shared)
                    top, bb, what = 'Dut', (), 'sub-design and design generated with one createdStructures list after a refused first attempt'
                    st.probe('refused_then_repaired_shared_list')
                    st.fault('gen_crash')
                elif c == 'shared_created':
                    # the documented use of createdStructures: several generations (here for two sub-blocks) share one list so
                    # that common modules are emitted once; the concatenated text must be one consistent design
                    cands = [o for o in seams.walk(b.dut) if o is not b.dut and o.parent is b.dut and not g.isInlinable(o)]
                    if len(cands) < 2:
                        continue
                    o1 = cands[call['pick'] % len(cands)]
                    o2 = [o for o in cands if o is not o1][call['pick2'] % (len(cands) - 1)]
                    shared = []
                    text = g.getVerilogForHierarchy(obj=o1, noInstanceNumberInTopEntity=False, createdStructures=shared)
                    text += '\n' + g.getVerilogForHierarchy(obj=o2, noInstanceNumberInTopEntity=False, createdStructures=shared)
                    top, bb, what = py4hw.getVerilogModuleName(o1), (), 'two generations sharing one createdStructures list'
                    st.probe('shared_created_structures')
                elif c == 'hier_hw':
                    # the whole system as the top entity
                    text = py4hw.VerilogGenerator(b.hw).getVerilogForHierarchy()
                    top, bb, what = None, (), 'getVerilogForHierarchy() of the HWSystem'
                    st.probe('system_as_top')
                elif c == 'hier':
                    text = g.getVerilogForHierarchy()
                    top, bb, what = 'Dut', (), 'getVerilogForHierarchy()'
                elif c == 'hier_created':
                    created = []
                    text = g.getVerilogForHierarchy(createdStructures=created)
                    top, bb, what = 'Dut', (), 'getVerilogForHierarchy(createdStructures=[])'
                    st.probe('created_structures')
                else:
                    cands = [o for o in seams.walk(b.dut) if o is not b.dut and not g.isInlinable(o)]
                    if not cands:
                        continue
                    o = cands[call['pick'] % len(cands)]
                    text = g.getVerilog(obj=o)
                    top, what = None, 'getVerilog(obj=%s)' % o.getFullPath()
                    bb = None
                    st.probe('child_module')
        except Exception as e:
            st.probe('generation_refused')
            log.add(si, c, 'refused', type(e).__name__)
            continue
        if c == 'child':
            if text.startswith('// WARNING: inlined'):
                continue
            try:
                bb = instantiated_modules(text)
            except vsim.VParseError:
                bb = ()
        judge(text, top, si, what, scn, blackboxes=bb, b=b)
        if c == 'hier':
            check_interchangeable(b, si, what, scn, st)
        texts += 1
        st.probe('text_elaborated')
        from .c19 import canonical
        log.add(si, c, h64(canonical(text)))
    if texts and st.faults:
        st.nontrivial = True


def sig_base(sig):
    return ':'.join(sig.split(':')[:2])


def shrink(scn):
    if scn.get('bulkmods'):
        nb, sd = scn['bulkmods']
        for m in (nb // 2, nb * 3 // 4, nb - 20, nb - 1):
            if 2 <= m < nb:
                yield dict(scn, bulkmods=[m, sd])
        return
    yield from shrink_list(scn, 'calls', 1)
    d = scn['design']
    ids = [n['id'] for n in d['nodes']]
    if len(ids) > 1:
        chunk = len(ids) // 2
        while chunk >= 1:
            for i in range(0, len(ids), chunk):
                keep = ids[:i] + ids[i + chunk:]
                if not keep:
                    continue
                try:
                    nd = netlist.prune(d, keep)
                except Exception:
                    continue
                ks = set(keep)
                yield dict(scn, design=nd, order=[x for x in scn['order'] if x in ks])
            chunk //= 2
    if any(n['grp'] for n in d['nodes']):
        yield dict(scn, design=dict(d, nodes=[dict(n, grp=[]) for n in d['nodes']]))
    if d.get('names'):
        for k in sorted(d['names']):
            nn = dict(d['names'])
            del nn[k]
            yield dict(scn, design=dict(d, names=nn))
    if d.get('inst_names'):
        for k in sorted(d['inst_names']):
            nn = dict(d['inst_names'])
            del nn[k]
            yield dict(scn, design=dict(d, inst_names=nn))

"""C19 - Verilog generation is a pure, repeatable function of the circuit.

Histories over 1-3 circuits: whole-hierarchy generation, module text of a sub-block requested
through different ancestors, a sub-block exported on its own under a forced module name, the same
generator object or a fresh one, a caller-supplied
createdStructures list, simulation steps in between, generation on a broken circuit that
raises half-way (gen_crash) followed by generation on a healthy one.
Oracles: the canonical text of a (circuit, request) pair is identical at every repetition
wherever it appears in the history; the simulation trace of a circuit that was generated from
equals that of a never-generated twin; the module text of a sub-block does not depend on the
ancestor it was requested from; global state left by a crash does not change later results.
Canonical text: instance-unique hex suffixes renamed by first appearance, declarations sorted
(the property allows exactly these two differences).
"""
import random
import re

import py4hw

from ..core import Violation, shrink_list, h64, known_findings
from .. import seams, netlist
from ..seams import quiet
from .c01 import emittable_kinds, apply_exclusions

PROP = 'C19'
TIERS = {'quick': 2400, 'thorough': 66000}
RULE = ('each run: 1-3 seeded catalogue circuits and a history of 4-14 operations (hierarchy generation, sub-block module '
        'generation via different ancestors, same/fresh generator, createdStructures, simulation steps, crashing generation '
        'of a broken circuit); non-trivial = some request was repeated at least once after an intervening operation of '
        'another kind (simulation, other circuit, crash) and >= 1 simulation step ran; distinct = distinct run digests')
REAL = ['py4hw.rtl_generation.VerilogGenerator and module-level caches', 'py4hw.transpilation', 'py4hw simulator', 'library blocks']
STUB = ['stimulus']
ASSUMPTIONS = ['"identical text up to the order of declarations and the instance-unique module suffixes": canonicalisation sorts wire '
               'declaration lines per module and renames hex suffixes by first appearance']
PROBES = ['refused_unsupported_block', 'clock_driver_assigned_after_generation', 'forced_top_name', 'system_text_elaborated', 'system_as_top', 'second_clock_domain', 'second_instance_compared', 'extended_between_generations', 'repeat_after_sim', 'repeat_after_other_circuit', 'repeat_after_crash', 'child_via_two_ancestors', 'fresh_vs_same_generator', 'sim_after_generation']

INLINED = {'And2', 'Or2', 'Xor2', 'Nand2', 'Nor2', 'Not', 'Buf', 'Bit', 'Range', 'BitsLSBF', 'BitsMSBF', 'ConcatenateMSBF',
           'ConcatenateLSBF', 'Repeat', 'Constant', 'Mux2', 'Equal', 'EqualConstant', 'And', 'Or', 'Nor', 'Sub', 'Mul', 'SignedMul',
           'ShiftLeftConstant', 'ShiftRightConstant', 'SignExtend', 'ZeroExtend'}

HEXID = re.compile(r'_(?:0x)?[0-9a-f]{9,16}\b')


def canonical(text):
    ids = {}

    def ren(m):
        k = m.group(0)
        if k not in ids:
            ids[k] = '_ID%d' % len(ids)
        return ids[k]
    text = HEXID.sub(ren, text)
    out = []
    decl = []
    for line in text.split('\n'):
        if line.startswith('wire ') and line.rstrip().endswith(';') and '=' not in line:
            decl.append(line)
            continue
        if decl:
            out.extend(sorted(decl))
            decl = []
        out.append(line)
    out.extend(sorted(decl))
    return '\n'.join(out)


def gen(rs, tier, index):
    kf = known_findings()
    rng = rs.get('design')
    comb, seqk = emittable_kinds()
    ncirc = rng.randint(1, 3)
    circuits = []
    for c in range(ncirc):
        n = rng.choice([3, 5, 8]) if tier == 'quick' else rng.choice([5, 10, 20])
        if rng.random() < 0.25:
            # a flat module whose children are all inlined: the module itself is the last object a generation visits
            flat = [k for k in comb if k.name in INLINED]
            d = netlist.gen_design(rng, n, flat, hier_depth=0, maxw=33)
            flat_mode = True
        else:
            d = netlist.gen_design(rng, n, comb, hier_depth=rng.choice([0, 1, 2]), feedback=rng.choice([0, 0.2]),
                                   seq_kinds=seqk, seq_frac=rng.choice([0.2, 0.4]), maxw=33)
            flat_mode = False
        apply_exclusions(d, kf, rng)
        # a second clock domain: a top-level group with sequential content gets its own driver whose clock wire is a 1-bit input
        tops = sorted({n['grp'][0] for n in d['nodes'] if n['grp']})
        bits = [i['name'] for i in d['inputs'] if i['w'] == 1]
        if tops and bits and rng.random() < 0.3:
            d['group_driver'] = {rng.choice(tops): {'name': 'clk25', 'en': None, 'wire': rng.choice(bits)}}
        if rng.random() < (0.8 if flat_mode else 0.4) and len(d['order']) > 1:
            d['late'] = rng.randint(1, len(d['order']) - 1)      # built up to here first; op 'extend' adds the rest later
        circuits.append(d)
    hr = rs.get('history')
    sr = rs.get('stimulus')
    ops = []
    for _ in range(hr.randint(4, 14)):
        c = hr.randrange(ncirc)
        r = hr.random()
        if r < 0.35:
            ops.append({'op': 'gen_hier', 'c': c, 'fresh': hr.random() < 0.5, 'created': hr.random() < 0.2,
                        'top': 'hw' if hr.random() < 0.2 else 'dut'})
        elif r < 0.42:
            # a sub-block exported on its own under a caller-chosen module name
            ops.append({'op': 'gen_forced', 'c': c, 'pick': hr.randrange(1 << 20), 'name': hr.choice(['dut', 'top', 'export'])})
        elif r < 0.6:
            ops.append({'op': 'gen_child', 'c': c, 'pick': hr.randrange(1 << 20), 'via': hr.choice(['top', 'parent', 'self']), 'fresh': hr.random() < 0.5})
        elif r < 0.9:
            ops.append({'op': 'sim', 'c': c, 'n': hr.choice([1, 2, 5]), 'vec': netlist.gen_vector(sr, circuits[c]['inputs'])})
        else:
            ops.append({'op': 'gen_crash', 'seed': hr.randrange(1 << 30)})
    for c, d in enumerate(circuits):
        if d.get('late') is not None:
            ops.insert(hr.randint(1, len(ops)), {'op': 'extend', 'c': c})
        elif hr.random() < 0.3 and any(n['grp'] for n in d['nodes']) and any(i['w'] == 1 for i in d['inputs']) and not d.get('group_driver'):
            # a sub-block is moved to a gated clock domain (clockDriver assigned after construction) somewhere in the history
            ops.insert(hr.randint(1, len(ops)), {'op': 'regate', 'c': c, 'pick': hr.randrange(1 << 20)})
    return {'circuits': circuits, 'ops': ops}


def run(scn, log, st):
    from .c03 import other_circuit
    circ = []
    for d in scn['circuits']:
        if d.get('group_driver'):
            st.probe('second_clock_domain')
        first = d['order'][:d['late']] if d.get('late') is not None else None
        b = netlist.Built(d).build(first)
        t = netlist.Built(d).build(first)
        with quiet():
            bs, ts = b.hw.getSimulator(), t.hw.getSimulator()
        reftext = None
        if first is not None:
            # text of the complete circuit from an object that is never generated from again; produced up front so
            # that no generator is created (and no module-level state touched) between the extension and the next request
            ref = netlist.Built(d).build(first).build()
            try:
                with quiet():
                    reftext = canonical(py4hw.VerilogGenerator(ref.dut).getVerilogForHierarchy())
            except Exception:
                reftext = None
        circ.append({'d': d, 'b': b, 't': t, 'bs': bs, 'ts': ts, 'gen': py4hw.VerilogGenerator(b.dut), 'generated': False, 'reftext': reftext})
    texts = {}          # request key -> (canonical text, op index, last kind of intervening op)
    since = {}          # request key -> set of op kinds since it was last issued
    for si, op in enumerate(scn['ops'], 1):
        kind = op['op']
        for k in since:
            since[k].add((kind, op.get('c')))
        if kind == 'gen_crash' and op['seed'] % 3 == 0:
            # another kind of refused generation: a behavioural block the transpiler does not support (a conditional
            # expression inside a call); the caller catches the refusal and goes on with other circuits
            from ..catalog import _TernaryInCall
            oh = py4hw.HWSystem()
            try:
                with quiet():
                    py4hw.VerilogGenerator(_TernaryInCall(oh, 'blk', oh.wire('s'), oh.wire('r'))).getVerilogForHierarchy()
            except Exception:
                st.fault('gen_crash')
                st.probe('refused_unsupported_block')
            continue
        if kind == 'gen_crash':
            ob = other_circuit(op['seed'])
            victim = next((o for o in seams.walk(ob.dut) if o is not ob.dut and o.inPorts), None)
            if victim is not None:
                victim.inPorts[0].wire = None
                try:
                    with quiet():
                        py4hw.VerilogGenerator(ob.dut).getVerilogForHierarchy()
                except Exception:
                    st.fault('gen_crash')
            continue
        c = circ[op['c']]
        b = c['b']
        if kind == 'extend':
            if c['d'].get('late') is None or c.get('extended'):
                continue
            # the circuit grows between generation requests: later text must describe the new design, i.e.
            # equal the text of a circuit built the same way that was never generated from before
            c['extended'] = True
            b.build()
            c['t'].build()
            with quiet():
                c['bs'], c['ts'] = b.hw.getSimulator(), c['t'].hw.getSimulator()
            for k in [k for k in texts if k[1] == op['c']]:
                del texts[k]
                since.pop(k, None)
            if c['reftext'] is not None:
                texts[('hier', op['c'])] = (c['reftext'], 'reference circuit', None, True)
                since[('hier', op['c'])] = set()
            st.fault('late_add')
            st.probe('extended_between_generations')
            continue
        if kind == 'regate':
            tops = sorted({n['grp'][0] for n in c['d']['nodes'] if n['grp']})
            bits = [i['name'] for i in c['d']['inputs'] if i['w'] == 1]
            if not tops or not bits or c.get('regated'):
                continue
            gname, en = tops[op['pick'] % len(tops)], bits[op['pick'] % len(bits)]
            for sysm in (b, c['t']):
                sysm.groups[(gname,)].clockDriver = py4hw.ClockDriver('gclk', base=sysm.hw.clockDriver, enable=sysm.wire(en))
            with quiet():
                c['bs'], c['ts'] = b.hw.getSimulator(), c['t'].hw.getSimulator()
            c['regated'] = True
            for k in [k for k in texts if k[1] == op['c']]:
                del texts[k]
                since.pop(k, None)
            st.fault('regate')
            st.probe('clock_driver_assigned_after_generation' if c['generated'] else 'clock_driver_assigned_late')
            continue
        if kind == 'sim':
            b.set_inputs(op['vec'])
            c['t'].set_inputs(op['vec'])
            with quiet():
                c['bs'].clk(op['n'])
                c['ts'].clk(op['n'])
            st.cycles += op['n']
            if c['generated']:
                st.probe('sim_after_generation')
            netlist.compare(b, c['t'].values(), si, 'circuit %d after %d cycles (generated from: %s)' % (op['c'], op['n'], c['generated']),
                            sigprefix='gen-altered-circuit')
            seams.check_prepared_empty('op %d' % si, si)
            log.add(si, 'sim', h64(sorted(b.values().items())))
            continue
        g = py4hw.VerilogGenerator(b.dut) if op.get('fresh') else c['gen']
        key = ('pending', si)
        try:
            with quiet():
                if kind == 'gen_hier' and op.get('top') == 'hw':
                    # the whole system as the top entity
                    key = ('hier-hw', op['c'])
                    text = py4hw.VerilogGenerator(b.hw).getVerilogForHierarchy()
                    st.probe('system_as_top')
                elif kind == 'gen_forced':
                    cands = [o for o in seams.walk(b.dut) if not g.isInlinable(o) and not o.isPrimitive()] or [b.dut]
                    o = cands[op['pick'] % len(cands)]
                    key = ('forced', op['c'], o.getFullPath(), op['name'])
                    text = py4hw.VerilogGenerator(o).getVerilogForHierarchy(forceName=op['name'])
                    st.probe('forced_top_name')
                elif kind == 'gen_hier':
                    key = ('hier', op['c'])
                    text = g.getVerilogForHierarchy(createdStructures=[]) if op.get('created') else g.getVerilogForHierarchy()
                else:
                    cands = [o for o in seams.walk(b.dut) if o is not b.dut and not g.isInlinable(o)]
                    if not cands:
                        continue
                    o = cands[op['pick'] % len(cands)]
                    anc = {'top': b.dut, 'parent': o.parent, 'self': o}[op['via']]
                    if op.get('fresh') or anc is not b.dut:
                        g = py4hw.VerilogGenerator(anc)
                    key = ('child', op['c'], o.getFullPath())
                    text = g.getVerilog(obj=o)
        except Exception as e:
            # a refusal is a result like any other: the same request must be refused every time
            if kind == 'gen_hier':
                key = ('hier-hw' if op.get('top') == 'hw' else 'hier', op['c'])
            text = 'REFUSED:%s' % type(e).__name__
        c['generated'] = True
        can = canonical(text)
        if key in texts:
            prev, psi, pvia, pfresh = texts[key]
            if pfresh != bool(op.get('fresh')):
                st.probe('fresh_vs_same_generator')
            inter = since.get(key, set())
            if any(k == 'sim' and cc == op['c'] for k, cc in inter):
                st.probe('repeat_after_sim')
                st.nontrivial = st.cycles > 0
            if any(cc is not None and cc != op['c'] for k, cc in inter):
                st.probe('repeat_after_other_circuit')
                st.nontrivial = st.cycles > 0
            if any(k == 'gen_crash' for k, cc in inter):
                st.probe('repeat_after_crash')
            if key[0] == 'child' and pvia != op.get('via'):
                st.probe('child_via_two_ancestors')
            if prev != can:
                a, b2 = prev.split('\n'), can.split('\n')
                j = next((i for i in range(min(len(a), len(b2))) if a[i] != b2[i]), min(len(a), len(b2)))
                what = 'hier' if key[0] == 'hier' else ('child-ancestor' if pvia != op.get('via') else 'child')
                raise Violation('not-repeatable', 'regen-differs:%s' % what, si,
                                'request %s: text of op %s and op %s differ at line %d: %r vs %r (intervening: %s)' % (
                                    key, psi, si, j, a[j] if j < len(a) else None, b2[j] if j < len(b2) else None, sorted(inter, key=str)))
        texts[key] = (can, si, op.get('via'), bool(op.get('fresh')))
        since[key] = set()
        log.add(si, kind, h64(can))
    # repetition on a second instance: the same description built again in this process must give the same text
    # (catches generator state that survives from the first generation of a class / module to the next)
    for ci, c in enumerate(circ):
        d = c['d']
        if c.get('regated'):
            continue
        first = d['order'][:d['late']] if d.get('late') is not None else None
        fresh = netlist.Built(d).build(first)
        if c.get('extended'):
            fresh.build()
        res = []
        for obj in (c['b'], fresh):
            try:
                with quiet():
                    res.append(canonical(py4hw.VerilogGenerator(obj.dut).getVerilogForHierarchy()))
            except Exception as e:
                res.append('REFUSED:%s' % type(e).__name__)
        st.probe('second_instance_compared')
        if res[0] != res[1]:
            a, b2 = res[0].split('\n'), res[1].split('\n')
            j = next((i for i in range(min(len(a), len(b2))) if a[i] != b2[i]), min(len(a), len(b2)))
            raise Violation('not-repeatable', 'regen-differs:second-instance', len(scn['ops']) + 1,
                            'circuit %d: text for the circuit and for a second instance of the same description differ at line %d: %r vs %r' % (
                                ci, j, a[j] if j < len(a) else None, b2[j] if j < len(b2) else None))
    # generation with the whole system as top entity, for every circuit in turn (interleaved in one process): whenever the
    # text of the circuit's Dut elaborates, the text of its system must be a closed, elaborating design as well
    if len(circ) > 1:
        from .. import vsim
        for ci, c in enumerate(circ):
            try:
                with quiet():
                    t_dut = py4hw.VerilogGenerator(c['b'].dut).getVerilogForHierarchy()
                    t_hw = py4hw.VerilogGenerator(c['b'].hw).getVerilogForHierarchy()
                vsim.elaborate(vsim.parse(t_dut), 'Dut')
            except Exception:
                continue
            st.probe('system_text_elaborated')
            try:
                vsim.elaborate(vsim.parse(t_hw), vsim.parse(t_hw)[0].name)
            except (vsim.VParseError, vsim.VElabError) as e:
                raise Violation('not-repeatable', 'interleaved:system-text-broken', len(scn['ops']) + 1,
                                'circuit %d of %d: the text generated for its HWSystem does not elaborate (%s) although the text of its Dut does' % (ci, len(circ), e))
    # final: every circuit still simulates like its never-generated twin
    for ci, c in enumerate(circ):
        with quiet():
            c['bs'].clk(2)
            c['ts'].clk(2)
        st.cycles += 2
        netlist.compare(c['b'], c['t'].values(), len(scn['ops']) + 1, 'circuit %d final' % ci, sigprefix='gen-altered-circuit')


def shrink(scn):
    yield from shrink_list(scn, 'ops', 1)

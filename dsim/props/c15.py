"""C15 - waveform capture records exactly what the wires carried, once per cycle.

Scheduler decides: the recorder's position among the clockables (re-drawn before every
edge), the split of the run into clk() calls, cancellation by stop() and resumption,
simulator restarts, clear() between segments, further clock domains (free running or gated
sub-blocks, visited in re-drawn order), the recorder instantiated after the simulator existed
and ran (late_attach), intermediate renderings.  Oracles: a shadow recorder (twin of real
blocks stepped one edge at a time by the harness: the value going into each edge);
getDict() equality; a small WaveDrom decoder (strip the framing 'x', expand '.', map
'0'/'1', take labels from 'data' in the wire's display format) must give the samples back;
every wave spans cycles + 2 characters; a rendering already handed out does not change when
later recordings are rendered.
"""
import copy
import random

import py4hw

from ..core import Violation, shrink_list, h64
from .. import seams, netlist
from ..catalog import KINDS, kinds_with
from ..seams import quiet
from .c05 import Stopper

PROP = 'C15'
TIERS = {'quick': 4500, 'thorough': 480000}
RULE = ('each run: a seeded design (sequences with repeats, counters, registers, gates; widths 1-64) with a Waveform '
        'watching 1-10 entries (wires, in/out ports, duplicates, aliases), 0-200 cycles in 1-3 segments separated by '
        'clear(); non-trivial = >= 1 cycle recorded, some watched wire changed value and some value repeated '
        '(run-length path); distinct = distinct run digests')
REAL = ['py4hw.logic.simulation.Waveform (clock, getDict, get_wavedrom, clear)', 'py4hw.simulation.Simulator']
STUB = ['stimulus', 'cancelling listener']
ASSUMPTIONS = ['WaveDrom text format as produced by get_wavedrom: framing x, "." = repeat, "2" + label for multi-bit wires']
PROBES = ['zero_cycles', 'duplicate_entry', 'port_alias', 'repeat_run', 'value_change', 'clear_between', 'wide_label', 'stop_cancel', 'sim_restart',
          'extra_clock_domain', 'recorder_attached_late', 'intermediate_rendering',
          'format_reassigned_after_rendering', 'bool_poked', 'same_short_name_two_wires']


def gen(rs, tier, index):
    rng = rs.get('design')
    comb = [KINDS[k] for k in ('And2', 'Or2', 'Not', 'Mux2', 'Add', 'Buf', 'Range', 'Equal', 'Constant')]
    seqk = [KINDS[k] for k in ('Reg', 'Counter', 'Sequence', 'Sequence', 'ModuloCounter', 'DelayLine', 'TReg')]
    d = netlist.gen_design(rng, rng.choice([3, 6, 10]), comb, hier_depth=rng.choice([0, 0, 1, 2]), feedback=0.2,
                           seq_kinds=seqk, seq_frac=0.6, maxw=64)
    # further clock domains: sub-blocks with a driver of their own (free running, or gated by an input); the recorder
    # itself stays in the system domain, the order in which the domains are visited is re-drawn before every edge
    groups = sorted({'/'.join(nd['grp'][:k]) for nd in d['nodes'] for k in range(1, len(nd['grp']) + 1)})
    dr = rs.get('domains')
    gd = {}
    for g in groups:
        if dr.random() < 0.4:
            en = None
            if dr.random() < 0.4:
                en = 'i%d' % len(d['inputs'])
                d['inputs'].append({'name': en, 'w': 1, 'role': 'enable'})
            gd[g] = {'name': 'clk_' + g.replace('/', '_'), 'en': en, 'idiom': 'enable', 'mode': 'input' if en else 'none'}
    d['group_driver'] = gd
    for nd in d['nodes']:
        if nd['kind'] == 'Sequence' and rng.random() < 0.6:
            # repeats: run-length encoded in the rendering
            vals = nd['p']['values']
            nd['p']['values'] = [v for v in vals for _ in range(rng.randint(1, 4))]
    refs = sorted(netlist.sig_widths(d))
    watch = []
    for _ in range(rng.randint(1, 10) if rng.random() < 0.97 else rng.choice([33, 65, 130])):
        r = rng.random()
        if r < 0.55 or not d['nodes']:
            watch.append({'t': 'wire', 'ref': rng.choice(refs)})
        elif r < 0.8:
            nd = rng.choice(d['nodes'])
            if nd['ins'] and rng.random() < 0.5:
                watch.append({'t': 'port', 'node': nd['id'], 'dir': 'in', 'k': rng.randrange(len(nd['ins']))})
            else:
                watch.append({'t': 'port', 'node': nd['id'], 'dir': 'out', 'k': rng.randrange(len(nd['ow']))})
        elif watch:
            watch.append(dict(rng.choice(watch)))      # duplicate entry
    # two watched wires of different parents with one short name (an internal wire named like a primary input)
    nr = rs.get('naming')
    internal = [r for r in refs if r[0] == 'n' and r not in d['outputs']]
    if internal and d['inputs'] and nr.random() < 0.25:
        s_ = nr.choice(internal)
        tgt = nr.choice(d['inputs'])['name']
        d['names'] = {s_: tgt}
        watch.append({'t': 'wire', 'ref': s_})
        watch.append({'t': 'wire', 'ref': tgt})
    sr = rs.get('stimulus')
    fr = rs.get('faults')
    segs = []
    for s in range(sr.randint(1, 3)):
        steps = []
        total = sr.choice([0, 1, 2, 5, 20, 60]) if tier == 'quick' else sr.choice([0, 1, 10, 80, 200])
        long_rec = s == 0 and fr.random() < 0.02
        if long_rec:
            total = fr.choice([300, 600, 1100, 2200, 4500])      # a long recording: thousands of samples per lane
        c = 0
        prev = None
        while c < total:
            n = min(total - c, sr.choice([1, 1, 2, 7, 30]) if not long_rec else fr.randint(20, 200))
            vec = netlist.gen_vector(sr, d['inputs'], prev)
            prev = vec
            parts = []
            left = n
            while left > 0:
                k = left if fr.random() < 0.5 else fr.randint(1, left)
                parts.append(k)
                left -= k
            steps.append({'vec': vec, 'n': n, 'parts': parts,
                          'stop_at': fr.randint(1, n) if (n > 1 and fr.random() < 0.2) else None,
                          'restart': fr.random() < 0.08, 'pseed': rs.sub('p%d_%d' % (s, len(steps)))})
            c += n
        segs.append({'steps': steps})
    # late_attach: the simulator exists and has run before the recorder is instantiated (then getSimulator() again)
    return {'design': d, 'watch': watch, 'segs': segs, 'short': rng.random() < 0.5,
            'late_attach': fr.choice([None, None, None, 0, 2, 5]), 'mid_render': fr.random() < 0.4,
            # the display format of the multi-bit lanes is re-assigned (wvf.format[i]) before the renderings of later segments
            'formats': [fr.choice(['{:X}', '{:X}', '{:d}', '{:x}', '{:o}', '{:08X}']) for _ in range(4)] if fr.random() < 0.4 else None,
            # 1-bit inputs are poked with Python bools (True / False) instead of 1 / 0
            'bool_inputs': fr.random() < 0.3}


FMT_BASE = {'{:X}': 16, '{:x}': 16, '{:08X}': 16, '{:d}': 10, '{:o}': 8}


def decode_wavedrom(sig, width, base=16):
    wave = sig['wave']
    data = list(sig.get('data', []))
    if len(wave) < 2 or wave[0] != 'x' or wave[-1] != 'x':
        raise ValueError('framing: %r' % wave)
    out = []
    last = None
    for ch in wave[1:-1]:
        if ch == '.':
            if last is None:
                raise ValueError('"." with nothing to repeat')
            out.append(last)
            continue
        if width == 1:
            if ch not in '01':
                raise ValueError('bit char %r' % ch)
            last = int(ch)
        else:
            if ch != '2':
                raise ValueError('data char %r' % ch)
            if not data:
                raise ValueError('label missing')
            last = int(data.pop(0), base)
        out.append(last)
    if data:
        raise ValueError('unused labels %r' % data)
    return out


def check_rendering(wd, entries, keys, shadow, cycles, where, gi, st, fmts=None):
    sigs = wd['signal']
    if len(sigs) != len(entries) + 1:
        raise Violation('render', 'render:signal-count', gi, '%s: %d signals for %d entries' % (where, len(sigs), len(entries)))
    if len(sigs[0]['wave']) != cycles + 2:
        raise Violation('render', 'render:clk-span', gi, '%s: clk wave %r' % (where, sigs[0]['wave']))
    for li, (e, k, sg) in enumerate(zip(entries, keys, sigs[1:])):
        if len(sg['wave']) != cycles + 2:
            raise Violation('render', 'render:span', gi, '%s: wave of %s spans %d chars for %d cycles' % (where, sg['name'], len(sg['wave']), cycles))
        try:
            dec = decode_wavedrom(sg, k.getWidth(), FMT_BASE[fmts[li]] if fmts else 16)
        except ValueError as ex:
            raise Violation('render', 'render:undecodable', gi, '%s: %s: %s' % (where, sg['name'], ex))
        if dec != shadow[id(k)]:
            raise Violation('render', 'render:decoded-value', gi, '%s: %s decodes to %s..., recorded %s...' % (
                where, sg['name'], dec[:8], shadow[id(k)][:8]))
        if k.getWidth() > 16 and sg.get('data'):
            st.probe('wide_label')


def run(scn, log, st):
    d = scn['design']
    b = netlist.Built(d).build()
    twin = netlist.Twin(d)
    entries = []
    keys = []
    for wdesc in scn['watch']:
        if wdesc['t'] == 'wire':
            w = b.wire(wdesc['ref'])
            entries.append(w)
            keys.append(w)
        else:
            o = b.objs[wdesc['node']]
            ports = o.inPorts if wdesc['dir'] == 'in' else o.outPorts
            p = ports[wdesc['k'] % len(ports)]
            entries.append(p)
            keys.append(p.wire)
            st.probe('port_alias')
    if len({id(k) for k in keys}) < len(keys):
        st.probe('duplicate_entry')
    if len({k.name for k in keys}) < len({id(k) for k in keys}):
        st.probe('same_short_name_two_wires')
    # map real wires to description refs for the shadow
    ref_of = {id(w): r for r, w in b.wires.items()}
    inner = {}
    for k in keys:
        if id(k) not in ref_of:
            inner[id(k)] = k        # a port of a block on a wire outside the description: not shadowed
    entries = [e for e, k in zip(entries, keys) if id(k) in ref_of]
    keys = [k for k in keys if id(k) in ref_of]
    if not entries:
        w = b.wire(sorted(b.sigw)[0])
        entries, keys = [w], [w]
    gated = any(v.get('en') for v in (d.get('group_driver') or {}).values())
    if d.get('group_driver'):
        st.probe('extra_clock_domain')

    def twin_edge():
        if gated:
            ten = netlist.enabled_nodes(d, lambda r: twin.b.wires[r].get())
            twin.edge(enabled=lambda leaf: twin.leaf_node.get(id(leaf)) in ten)
        else:
            twin.edge()
    if scn.get('late_attach') is not None:
        with quiet():
            sim = b.hw.getSimulator()
        vec0 = [0] * len(d['inputs'])
        b.set_inputs(vec0)
        twin.set_inputs(vec0)
        twin.settle()
        with quiet():
            sim.clk(scn['late_attach'])
        for _ in range(scn['late_attach']):
            twin_edge()
        st.probe('recorder_attached_late')
        st.fault('late_attach')
    wvf = py4hw.Waveform(b.hw, 'wvf', list(entries))
    with quiet():
        sim = b.hw.getSimulator()
    def cur_fmts():
        return [(wvf.format[li] if k.getWidth() > 1 else '{:X}') for li, k in enumerate(keys)]
    kept = []           # (where, rendering, snapshot of it): a rendering is a document, later recordings leave it alone
    stopper = Stopper(sim)
    sim.addListener(stopper)
    uniq = []
    for k in keys:
        if all(k is not u for u in uniq):
            uniq.append(k)
    changed = repeated = False
    for gi, seg in enumerate(scn['segs']):
        if gi > 0:
            wvf.clear()
            st.probe('clear_between')
            if scn.get('formats'):
                # a rendering has been produced already; the display format of the lanes is changed now
                for li, k in enumerate(keys):
                    if k.getWidth() > 1:
                        wvf.format[li] = scn['formats'][(li + gi) % 4]
                st.probe('format_reassigned_after_rendering')
        shadow = {id(k): [] for k in uniq}
        cycles = 0
        for si, step in enumerate(seg['steps'], 1):
            rng = random.Random(step['pseed'])
            if step['restart']:
                with quiet():
                    sim = seams.restart_simulator(b.hw, st)
                stopper.sim = sim
                st.probe('sim_restart')
            seams.EdgeShuffler(sim, rng, st)
            b.set_inputs(step['vec'])
            if scn.get('bool_inputs'):
                for i_, v_ in zip(d['inputs'], step['vec']):
                    if i_['w'] == 1:
                        b.wires[i_['name']].put(bool(v_))
                st.probe('bool_poked')
            twin.set_inputs(step['vec'])
            twin.settle()
            parts = list(step['parts'])
            if len(parts) > 1:
                st.fault('split_clk')
            done = 0
            pend = step['stop_at']
            guard = 0
            while parts:
                guard += 1
                if guard > 200:
                    raise Violation('no-progress', 'clk-no-progress', si, 'clk() calls make no progress')
                k = parts.pop(0)
                if pend is not None and done < pend <= done + k:
                    stopper.at = stopper.count + (pend - done)
                    pend = None
                    st.fault('stop_cancel')
                    st.probe('stop_cancel')
                else:
                    stopper.at = None
                before = sim.total_clks
                with quiet():
                    sim.clk(k)
                ran = sim.total_clks - before
                done += ran
                if ran < k:
                    parts.insert(0, k - ran)
            for _ in range(step['n']):
                for k in uniq:
                    shadow[id(k)].append(twin.b.wires[ref_of[id(k)]].get())
                twin_edge()
            cycles += step['n']
            st.cycles += step['n']
            if scn.get('mid_render') and si == (len(seg['steps']) + 1) // 2 and si < len(seg['steps']):
                with quiet():
                    mid = wvf.get_wavedrom(shortNames=scn['short'])
                check_rendering(mid, entries, keys, shadow, cycles, 'segment %d after %d cycles (intermediate rendering)' % (gi, cycles), gi, st, cur_fmts())
                kept.append(('segment %d after %d cycles' % (gi, cycles), mid, copy.deepcopy(mid)))
                st.probe('intermediate_rendering')
        # ---- oracles for this segment
        where = 'segment %d (%d cycles)' % (gi, cycles)
        data = wvf.getDict()
        if len(data) != len(uniq):
            raise Violation('capture', 'capture:entries', gi, '%s: getDict has %d entries for %d distinct wires' % (where, len(data), len(uniq)))
        for k in uniq:
            got = list(data[k])
            exp = shadow[id(k)]
            if len(got) != cycles:
                raise Violation('capture', 'capture:sample-count', gi, '%s: %s has %d samples' % (where, ref_of[id(k)], len(got)))
            if got != exp:
                i = next(i for i in range(cycles) if got[i] != exp[i])
                raise Violation('capture', 'capture:sample-value', gi, '%s: %s sample %d is %#x, wire carried %#x into that edge' % (
                    where, ref_of[id(k)], i, got[i], exp[i]))
            if len(set(exp)) > 1:
                changed = True
                st.probe('value_change')
            if any(a == b2 for a, b2 in zip(exp, exp[1:])):
                repeated = True
                st.probe('repeat_run')
        if cycles == 0:
            st.probe('zero_cycles')
        with quiet():
            wd = wvf.get_wavedrom(shortNames=scn['short'])
        check_rendering(wd, entries, keys, shadow, cycles, where, gi, st, cur_fmts())
        for kw, doc, snap in kept:
            if doc != snap:
                raise Violation('render', 'render:earlier-rendering-changed', gi, 'the rendering taken at %s changed when %s was rendered' % (kw, where))
        kept.append((where, wd, copy.deepcopy(wd)))
        seams.check_prepared_empty(where, gi)
        log.add(gi, cycles, h64(repr([shadow[id(k)] for k in uniq])))
    if st.cycles and changed and repeated:
        st.nontrivial = True


def shrink(scn):
    yield from shrink_list(scn, 'segs', 1)
    for gi, seg in enumerate(scn['segs']):
        for c in shrink_list(seg, 'steps', 0):
            s2 = dict(scn)
            s2['segs'] = list(scn['segs'])
            s2['segs'][gi] = c
            yield s2
        for i, s in enumerate(seg['steps']):
            if len(s['parts']) > 1 or s['stop_at'] is not None or s['restart']:
                s2 = dict(scn)
                s2['segs'] = [dict(x) for x in scn['segs']]
                s2['segs'][gi]['steps'] = list(seg['steps'])
                s2['segs'][gi]['steps'][i] = dict(s, parts=[s['n']], stop_at=None, restart=False)
                yield s2
    yield from shrink_list(scn, 'watch', 1)
    if scn.get('late_attach') is not None:
        yield dict(scn, late_attach=None)
    if scn.get('mid_render'):
        yield dict(scn, mid_render=False)
    gd = scn['design'].get('group_driver') or {}
    for g in sorted(gd):
        yield dict(scn, design=dict(scn['design'], group_driver={k: v for k, v in gd.items() if k != g}))

"""C04 - combinational settling is complete and independent of construction order.

Scheduler decides: instantiation order of every block (input of the sorter), children-dict
permutation, when the simulator is created relative to construction (late_add), re-sorts and
restarts between steps.  Oracles: (1) propagatables is a topological order, (2) local fixpoint
of every stateless leaf, (3) all wires equal a twin built in dataflow order whose real leaves the harness evaluates in its own Kahn order,
(4) netlists with a combinational cycle are refused, cycles through registers accepted,
(5) the sort returns (bounded).
"""
import random

import py4hw
import py4hw.simulation

from ..core import Violation, shrink_list, h64
from .. import seams, netlist
from ..catalog import KINDS, kinds_with
from ..seams import quiet

class Stopper:
    def __init__(self, sim):
        self.sim = sim
        self.count = 0
        self.at = None

    def simulatorUpdated(self):
        self.count += 1
        if self.at is not None and self.count == self.at:
            self.sim.stop()


PROP = 'C04'
TIERS = {'quick': 4800, 'thorough': 160000}
RULE = ('each run: one seeded netlist (5-150 leaves, hierarchy 0-3, fan-out, reconvergence, registers between '
        'stages) built in a PRNG-chosen instantiation order, stepped with seeded vectors under faults; '
        'non-trivial = the unsorted leaf list was not already a valid order (sorter had to repair) or a fault fired; '
        'distinct = distinct run digests (design+order+stimulus+faults+observed values)')
REAL = ['py4hw.simulation.Simulator (topologicalSort, propagateAll, clk)', 'py4hw.base (Logic, Wire, ports)',
        'py4hw library primitives and structural blocks']
STUB = ['stimulus (wire.put between clk calls)']
ASSUMPTIONS = ['reference models in dsim/catalog.py state the documented function of each block',
               'netlists up to ~150 leaves / chains up to 900 deep (thorough); widths up to 70']
PROBES = ['thousands_of_leaves', 'deep_hierarchy', 'observed_from_listener', 'creation_refused_then_retried', 'wires_renamed_before_sort', 'simulator_through_constructor', 'settled_by_clk0', 'gated_top_driver', 'simulator_before_cycle_closed', 'const_update', 'stop_cancel', 'sorter_needed_repair', 'cyclic_refused', 'reg_cycle_accepted', 'late_add', 'antidataflow_block']

STATEFUL_LEAVES = {'Latch', 'AsynchronousMemory', 'BidirBuf'}


def gen(rs, tier, index):
    rng = rs.get('design')
    mode = rng.random()
    comb = kinds_with(seq=False, exclude=('rot',)) + kinds_with(tag='rot') + (kinds_with(tag='big') if tier == 'thorough' or rng.random() < 0.15 else [])
    comb = comb + kinds_with(tag='ifaceport')        # user primitive with interface-declared ports
    comb = comb + kinds_with(tag='perinst')          # one class, structural or behavioural per instance (method bound to the object)
    seqk = [KINDS[k] for k in ('Reg', 'Counter', 'DelayLine', 'TReg', 'MooreAcc')]      # MooreAcc: a leaf with clock() and propagate()
    scn = {'mode': 'acyclic'}
    bulk = rng.random()
    if bulk < (0.002 if tier == 'quick' else 0.0015):
        # bulk: thousands of leaves in a shuffled instantiation order
        nb = rng.choice([1100, 2100, 4200, 5000, 5000, 9000] if tier == 'quick' else [4200, 9000, 17000, 33000])
        scn['bulk'] = [nb, rs.sub('bulk')]
        scn['design'], _ = netlist.bulk_design(*scn['bulk'])
        mode = 0.5
    elif mode < 0.12:
        # deep chain built in reverse: the worst case of the swap sorter
        depth = rng.choice([5, 20, 60, 150]) if tier == 'quick' else rng.choice([20, 100, 300, 600, 900, 1100, 2100, 4200])
        scn['design'] = chain_design(rng, depth)
    elif not scn.get('bulk'):
        n = rng.choice([3, 5, 8, 12, 20, 30]) if tier == 'quick' else rng.choice([5, 12, 30, 60, 100])
        scn['design'] = netlist.gen_design(rng, n, comb, hier_depth=rng.choice([0, 0, 1, 2, 3]),
                                           feedback=rng.choice([0, 0.1, 0.3]), seq_kinds=seqk,
                                           seq_frac=rng.choice([0, 0.1, 0.25]), big=rng.random() < 0.003)
    d = scn['design']
    if scn.get('bulk'):
        pass
    elif mode >= 0.12 and mode < 0.30:
        scn['mode'] = 'cyclic'
        add_comb_cycle(rng, d)
    if scn['mode'] == 'acyclic' and any(KINDS[n['kind']].seq for n in d['nodes']) and rng.random() < 0.2:
        # every register behind a gated clock: combinational logic must still settle at edges that clock nothing
        nm = 'i%d' % len(d['inputs'])
        d['inputs'].append({'name': nm, 'w': 1, 'role': 'enable'})
        d['top_enable'] = nm
    if scn['mode'] == 'acyclic' and rng.random() < 0.12:
        # a user block that refuses one input value with an exception: the first request for the simulator fails while the
        # netlist is settled for the first time, the caller catches that, corrects the input and asks again
        w = rng.choice([2, 4, 8])
        nm = 'i%d' % len(d['inputs'])
        d['inputs'].append({'name': nm, 'w': w, 'role': 'picky'})
        nid = max(n['id'] for n in d['nodes']) + 1
        d['nodes'].append({'id': nid, 'kind': 'PickyInc', 'p': {'bad': (1 << w) - 1}, 'ins': [nm], 'ow': [w], 'grp': []})
        d['outputs'].append('n%d.0' % nid)
        d['order'].append(nid)
        scn['picky'] = [nm, (1 << w) - 1]
        picky_idx = len(d['inputs']) - 1
    order = list(d['order'])
    r = rng.random()
    if r < 0.5:
        rng.shuffle(order)
    elif r < 0.75:
        order.reverse()
    scn['order'] = order
    if scn.get('bulk'):
        # kept compact: design and order are regenerated from (n, seed) when the scenario is executed
        scn['order'] = None
        scn['design'] = None
    if scn['mode'] == 'acyclic' and not scn.get('bulk') and rng.random() < 0.02:
        scn['deep'] = rng.choice([12, 16, 17, 24, 33, 40])     # one group of the design nested that many blocks deeper
    fr = rs.get('faults')
    scn['late'] = fr.randint(1, max(1, len(order) - 1)) if (fr.random() < 0.25 and len(order) > 1) else None
    scn['dseed'] = rs.sub('deep')
    scn['perm'] = rs.sub('perm') if fr.random() < 0.4 else None
    # wires of the connected netlist are renamed / moved through the public Wire API before the simulator is asked for
    scn['rename'] = rs.sub('rename') if fr.random() < 0.2 else None
    if scn.get('bulk'):
        scn['rename'] = None        # (Wire.rename is linear in the number of wires of the owner: quadratic for thousands)
    # the simulator is obtained through its public constructor (as test/interactive/tb_Bits.py does) instead of getSimulator()
    scn['ctor'] = fr.random() < 0.2
    scn['observer'] = fr.random() < 0.25
    sr = rs.get('stimulus')
    steps = []
    prev = None
    for _ in range(sr.randint(2, 8)):
        vec = netlist.gen_vector(sr, d['inputs'], prev)
        if scn.get('picky') and vec[picky_idx] == scn['picky'][1]:
            vec[picky_idx] -= 1
        prev = vec
        faults = [f for f in ('resort', 'sim_restart', 'extra_settle') if fr.random() < 0.2]
        n = sr.choice([0, 1, 1, 1, 2, 3, 6])        # clk(0): settle only, no edge
        step = {'vec': vec, 'clk': n, 'faults': faults, 'stop_at': fr.randint(1, n - 1) if (n > 1 and fr.random() < 0.3) else None}
        consts = [nd for nd in d['nodes'] if nd['kind'] == 'Constant' and not nd.get('guard')]
        if consts and fr.random() < 0.2:
            nd = fr.choice(consts)
            step['const'] = [nd['id'], fr.getrandbits(nd['ow'][0])]     # the block's value attribute is changed between clk calls
        steps.append(step)
    scn['steps'] = steps
    return scn


def chain_design(rng, depth):
    """a chain of `depth` 2-input gates; each stage also reads a primary input (reconvergence)"""
    w = rng.choice([1, 4, 8])
    inputs = [{'name': 'i0', 'w': w}, {'name': 'i1', 'w': w}]
    nodes = []
    last = 'i0'
    for i in range(depth):
        kind = rng.choice(['And2', 'Or2', 'Not', 'Buf', 'Mux2x'])
        if kind == 'Not' or kind == 'Buf':
            nodes.append({'id': i, 'kind': kind, 'p': {}, 'ins': [last], 'ow': [w], 'grp': []})
        elif kind == 'Mux2x':
            nodes.append({'id': i, 'kind': 'Sub', 'p': {}, 'ins': [last, 'i1'], 'ow': [w], 'grp': []})
        else:
            nodes.append({'id': i, 'kind': kind, 'p': {}, 'ins': [last, 'i1'], 'ow': [w], 'grp': []})
        last = 'n%d.0' % i
    return {'inputs': inputs, 'nodes': nodes, 'outputs': [last], 'order': list(range(depth))}


def add_comb_cycle(rng, d):
    """insert one back edge among combinational leaves (cycle length 1..12).  A fresh ring of
    stateless gates is appended and hooked to an existing signal so the cycle always exists."""
    sigw = netlist.sig_widths(d)
    L = rng.randint(1, 12)
    base = max([n['id'] for n in d['nodes']] + [-1]) + 1
    src = rng.choice(sorted(sigw))
    w = sigw[src]
    grp_choices = [n['grp'] for n in d['nodes']] or [[]]
    ids = list(range(base, base + L))
    last_ref = 'n%d.0' % ids[-1]
    for j, nid in enumerate(ids):
        grp = list(rng.choice(grp_choices))
        if j == 0:
            node = {'id': nid, 'kind': rng.choice(['And2', 'Or2', 'Xor2']), 'p': {}, 'ins': [src, last_ref], 'ow': [w], 'grp': grp}
        else:
            node = {'id': nid, 'kind': rng.choice(['Not', 'Buf']), 'p': {}, 'ins': ['n%d.0' % ids[j - 1]], 'ow': [w], 'grp': grp}
        d['nodes'].append(node)
    d['order'] = d['order'] + ids
    d['outputs'] = d['outputs'] + [last_ref]
    d['cycle_len'] = L


def unsorted_ok(hw):
    """is the unsorted propagatable list already a valid evaluation order?"""
    leaves = [l for l in hw.allLeaves() if l.isPropagatable()]
    pos = {id(o): i for i, o in enumerate(leaves)}
    for o in leaves:
        for p in o.outPorts:
            if p.wire is None:
                continue
            for sp in p.wire.getSinks():
                s = sp.parent
                if id(s) in pos and pos[id(s)] < pos[id(o)]:
                    return False
    return True


def local_fixpoint(sim, step, where):
    for leaf in sim.propagatables:
        cn = type(leaf).__name__
        if leaf.isClockable() or cn in STATEFUL_LEAVES:
            continue
        if cn in ('Div', 'Mod') and leaf.b.get() == 0:
            continue
        before = [p.wire.get() for p in leaf.outPorts if p.wire is not None]
        leaf.propagate()
        after = [p.wire.get() for p in leaf.outPorts if p.wire is not None]
        if before != after:
            raise Violation('not-at-fixpoint', 'fixpoint:%s' % cn, step,
                            '%s leaf %s outputs %s -> %s when re-evaluated' % (where, leaf.getFullPath(), before, after))


def check_all(b, sim, ref, step, where, st):
    bad = seams.topo_order_violations(sim)
    if bad:
        raise Violation('order', 'topo-order', step, '%s: %s evaluated before its driver %s' % (where, bad[0][1], bad[0][0]))
    local_fixpoint(sim, step, where)
    netlist.compare(b, ref.values(), step, where)
    seams.check_wire_ranges(b.hw, where, step)
    seams.check_prepared_empty(where, step)


def materialise(scn):
    if scn.get('bulk'):
        return netlist.bulk_design(*scn['bulk'])
    d, order = scn['design'], scn['order']
    if scn.get('deep'):
        import copy
        d = copy.deepcopy(d)
        netlist.deepen(d, random.Random(scn.get('dseed', 0)), scn['deep'])
    return d, order


def run(scn, log, st):
    d, order = materialise(scn)
    if scn.get('bulk'):
        st.probe('thousands_of_leaves')
        st.probe('leaves_ge_%d' % (4096 if scn['bulk'][0] >= 4096 else 1024))
    if scn.get('deep'):
        st.probe('deep_hierarchy')
    log.add('design', h64(repr(sorted((n['id'], n['kind'], tuple(n['ins'])) for n in d['nodes']))), 'order', h64(order))
    b = netlist.Built(d)
    st.sched(tuple(order), scn.get('perm'), scn.get('late'))      # distinct instantiation schedules
    late = scn.get('late')
    first = order if late is None else order[:late]
    b.build(first)
    if any('antidataflow' in KINDS[n['kind']].tags for n in d['nodes']):
        st.probe('antidataflow_block')
    if scn.get('perm') is not None:
        seams.perm_children(b.hw, random.Random(scn['perm']), st)
    if scn.get('rename') is not None:
        rr = random.Random(scn['rename'])
        k = 0
        for r_, w in sorted(b.wires.items()):
            if rr.random() < 0.5:
                continue
            k += 1
            if w.parent is b.hw or rr.random() < 0.6:
                w.rename('rn%d_%s' % (k, w.name))
            else:
                w.reparentAndRename(b.hw, 'mv%d_%s' % (k, w.name))
        if k:
            st.fault('wire_rename', k)
            st.probe('wires_renamed_before_sort')
    get_sim = (lambda: py4hw.simulation.Simulator(b.hw)) if scn.get('ctor') else b.hw.getSimulator
    if scn.get('ctor'):
        st.probe('simulator_through_constructor')
    if scn['mode'] == 'cyclic':
        if late is not None:
            # a simulator may already exist when the blocks that close the loop are added
            try:
                with quiet():
                    b.hw.getSimulator()
                st.probe('simulator_before_cycle_closed')
            except Exception:
                pass
            b.build(order)
        for attempt in range(3):
            # the refusal must be repeatable: asking again (a retry after the error) must not hand out a simulator
            try:
                with quiet():
                    sim = get_sim()
            except Exception as e:
                st.probe('cyclic_refused')
                st.nontrivial = True
                log.add('refused', type(e).__name__)
                continue
            raise Violation('cycle-accepted', 'cycle-accepted' if attempt == 0 else 'cycle-accepted:on-retry', attempt,
                            'netlist with a combinational cycle of length %s was simulated (request %d)' % (d.get('cycle_len'), attempt + 1))
        return
    if not unsorted_ok(b.hw):
        st.probe('sorter_needed_repair')
        st.nontrivial = True
    if scn.get('picky') and late is None and any(i['name'] == scn['picky'][0] for i in d['inputs']) and any(n['kind'] == 'PickyInc' for n in d['nodes']):
        pname, bad = scn['picky']
        pw = b.wire(pname)
        pw.put(bad)
        try:
            with quiet():
                get_sim()
        except ValueError:
            st.fault('creation_refused_then_retried')
            st.probe('creation_refused_then_retried')
        pw.put(0)
    try:
        with quiet():
            sim = get_sim()
    except Exception as e:
        raise Violation('acyclic-refused', 'acyclic-refused:%s' % str(e)[:30], 0,
                        'acyclic netlist refused: %r (nodes=%d)' % (e, len(d['nodes'])))
    ref = netlist.Twin(d)
    if late is not None:
        # the rest is added after the simulator exists; getSimulator() re-sorts
        b.build(order)
        st.fault('late_add')
        st.probe('late_add')
        st.nontrivial = True
        with quiet():
            sim = b.hw.getSimulator()
        bad = seams.topo_order_violations(sim)
        if bad:
            raise Violation('order', 'topo-order', 0, 'after late_add: %s before its driver %s' % (bad[0][1], bad[0][0]))
    else:
        ref.settle()
        check_all(b, sim, ref, 0, 'after simulator creation', st)
    if any(KINDS[n['kind']].seq for n in d['nodes']) and any(
            netlist.parse_ref(r)[0] == 'n' and netlist.parse_ref(r)[1] >= n['id'] for n in d['nodes'] for r in n['ins']):
        st.probe('reg_cycle_accepted')
    if scn.get('observer'):
        # a simulator listener (a checker, a scope) that looks at the netlist at every callback: what it sees is settled
        class _Observer:
            def __init__(self_):
                self_.sim = sim
                self_.n = 0

            def simulatorUpdated(self_):
                self_.n += 1
                local_fixpoint(self_.sim, self_.n, 'inside a listener callback (%d)' % self_.n)
        observer = _Observer()
        sim.addListener(observer)
        st.probe('observed_from_listener')
    for si, step in enumerate(scn['steps'], 1):
        for f in step['faults']:
            if f == 'resort':
                with quiet():
                    sim = b.hw.getSimulator()
                st.fault('resort')
            elif f == 'sim_restart':
                with quiet():
                    sim = seams.restart_simulator(b.hw, st)
            elif f == 'extra_settle':
                sim.propagateAll()
                st.fault('extra_settle')
            st.nontrivial = True
            if scn.get('observer'):
                observer.sim = sim
        if step.get('const'):
            nid, v = step['const']
            if nid in b.objs:
                b.objs[nid].value = v
                ref.b.objs[nid].value = v
                st.fault('const_update')
                st.probe('const_update')
        b.set_inputs(step['vec'])
        ref.set_inputs(step['vec'])
        ref.settle()
        n = step['clk']
        stop_at = step.get('stop_at')
        if stop_at:
            # cancellation: a listener calls stop() inside clk(n); the call returns early and must leave a settled netlist
            stopper = Stopper(sim)
            stopper.at = stop_at
            sim.addListener(stopper)
            sim.clk(n)
            sim.listeners.remove(stopper)
            st.fault('stop_cancel')
            st.probe('stop_cancel')
            n = stop_at
        else:
            sim.clk(n)
            if n == 0:
                st.probe('settled_by_clk0')
        en = None
        if d.get('top_enable'):
            ten = ref.b.wires[d['top_enable']]
            st.probe('gated_top_driver')
            en = (lambda leaf: ten.get() != 0)
        for _ in range(n):
            ref.edge(enabled=en)
        st.cycles += n
        check_all(b, sim, ref, si, 'after clk(%d) of step %d' % (n, si), st)
        log.add('step', si, h64(sorted((r, w.get()) for r, w in b.wires.items())))


def shrink(scn):
    # fewer steps, no faults, canonical order, fewer nodes
    yield from shrink_list(scn, 'steps', 0)
    if scn.get('late') is not None:
        c = dict(scn)
        c['late'] = None
        yield c
    if scn.get('perm') is not None:
        c = dict(scn)
        c['perm'] = None
        yield c
    if scn.get('rename') is not None:
        yield dict(scn, rename=None)
    if scn.get('ctor'):
        yield dict(scn, ctor=False)
    if any(s['faults'] for s in scn['steps']):
        c = dict(scn)
        c['steps'] = [dict(s, faults=[]) for s in scn['steps']]
        yield c
    if scn.get('bulk'):
        nb, sd = scn['bulk']
        for m in (nb // 2, nb * 3 // 4, nb - 100, nb - 1):
            if 2 <= m < nb:
                yield dict(scn, bulk=[m, sd], late=(min(scn['late'], m - 1) if scn.get('late') is not None else None))
        return
    if scn.get('deep'):
        yield dict(scn, deep=None)
        if scn['deep'] > 1:
            yield dict(scn, deep=scn['deep'] // 2)
            yield dict(scn, deep=scn['deep'] - 1)
    d = scn['design']
    ids = [n['id'] for n in d['nodes']]
    if len(ids) > 1:
        chunk = len(ids) // 2
        while chunk >= 1:
            for i in range(0, len(ids), chunk):
                keep = ids[:i] + ids[i + chunk:]
                if not keep:
                    continue
                try:
                    nd = netlist.prune(d, keep)
                except Exception:
                    continue
                c = dict(scn)
                c['design'] = nd
                ks = set(keep)
                c['order'] = [x for x in scn['order'] if x in ks]
                if c.get('late') is not None:
                    c['late'] = min(c['late'], max(1, len(c['order']) - 1))
                yield c
            chunk //= 2
    if scn['order'] is not None:
        canon = sorted(scn['order'])
        if scn['order'] != canon:
            c = dict(scn)
            c['order'] = canon
            yield c
    if any(any(s['vec']) for s in scn['steps']):
        c = dict(scn)
        c['steps'] = [dict(s, vec=[0] * len(s['vec'])) for s in scn['steps']]
        yield c

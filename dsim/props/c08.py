"""C08 - logic, selection and comparison blocks implement their truth tables exactly.
See _blockcheck.py for the (plainly stated, weaker) role of the simulation here."""
from . import _blockcheck as bc
from ..catalog import kinds_with

PROP = 'C08'
TIERS = {'quick': 9000, 'thorough': 600000}
RULE = ('each run: one logic / bit-manipulation / selector / comparator block (2-input and n-ary gates, reductions, bit, '
        'range, bit split both orders, concatenation both orders, repeat, enable-buffer, mux 2..8-way, demux, decoder, '
        'one-hot mux/demux, select, default-select chain, priority encoder both directions, minterm, sum of minterms, '
        'swap, equal, (not-)equal-constant, any-equal, unsigned/signed comparators, min/max) at seeded widths and input '
        'counts, inside a registered testbench, 12-80 sampled vectors (never an enumerated product); non-trivial = output '
        'took >= 2 values and >= 1 schedule fault fired; distinct = distinct run digests')
REAL = ['py4hw.logic.bitwise / relational blocks', 'py4hw simulator']
STUB = ['stimulus']
ASSUMPTIONS = ['PriorityEncoder: inc_priority=True means the highest index wins (unit test + in-code comment; the docstring says the opposite)',
               'gates at equal operand/result widths']
PROBES = ['beyond_usual_sizes', 'wider_than_64_bits', 'more_than_64_ports', 'output_toggled', 'settled_by_clk0', 'block_added_after_simulator', 'constant_reassigned', 'stimuli_from_listener'] + ['kind_' + k.name for k in kinds_with(tag='c08')]
gen = bc.make_gen('c08')
run = bc.run
shrink = bc.shrink

"""Shared machinery of C07 / C08: one library block inside a live clocked testbench.

Plain statement of fit: at the API these blocks are pure functions of (configuration, input).
What the simulation adds: (i) history independence - inputs arrive as a seeded sequence through
input registers (previous vector chosen to toggle), the result is captured by output registers,
so a stale or state-carrying evaluation shows; (ii) schedule independence - the block's internal
primitives are re-ordered (perm_children), the simulator is re-sorted / restarted, evaluation is
duplicated (extra_settle) in every run; (iii) the C04 / C06 invariants on all internal wires.
The oracle is the block's documented integer function (dsim/catalog.py).
"""
import random

from ..core import Violation, shrink_list, h64
from .. import seams, netlist
from ..catalog import KINDS, kinds_with, Pool, rand_width, M, set_big
from ..seams import quiet
from .c04 import local_fixpoint


def make_gen(tag, widths_hi=70):
    kinds = kinds_with(tag=tag)

    def gen(rs, tier, index):
        rng = rs.get('design')
        k = rng.choice(kinds)
        pool = Pool(rng, max_inputs=0)
        def pick(w):
            # one wire may feed several ports of a block (e.g. {s, s, s, a} sign extension by concatenation)
            c = [x for x in pool.sigs if x[1] == w]
            if c and rng.random() < 0.2:
                return rng.choice(c)
            return pool.new_input(w)
        pool.pick = pick
        def any_(lo=1, hi=None):
            hi = min(hi or widths_hi, widths_hi)
            c = [x for x in pool.sigs if lo <= x[1] <= hi]
            if c and rng.random() < 0.2:
                return rng.choice(c)
            return pool.new_input(rand_width(rng, lo, hi))
        pool.any = any_
        pool.nonzero = lambda ref, w: ref
        # big: widths and input counts beyond the usual ones (past 64 bits / 64 inputs), a seeded minority of the runs
        big = rng.random() < 0.12
        set_big(big)
        try:
            params, ins, ows = k.plan(rng, pool)
            for _ in range(20):
                if not params.get('amb'):
                    break
                pool.inputs.clear()
                pool.sigs.clear()
                params, ins, ows = k.plan(rng, pool)
        finally:
            set_big(False)
        nz = [1] if 'div' in k.tags else []          # divisor: never zero, never registered
        # listener bench: a purely combinational design (no clocked element at all) whose stimuli are applied by a simulator
        # listener from inside its callback during one clk(n) burst, the listener also reads the outputs
        listener_bench = (not nz) and rng.random() < 0.07
        nodes = []
        bins = []
        for j, r in enumerate(ins):
            w = pool.inputs[int(r[1:])]['w']
            if j in nz or listener_bench or rng.random() < 0.25:
                bins.append(r)
            else:
                nid = len(nodes)
                nodes.append({'id': nid, 'kind': 'Reg', 'p': {'en': False, 'rs': False, 'rv': 0}, 'ins': [r], 'ow': [w], 'grp': []})
                bins.append('n%d.0' % nid)
        # several 1-bit ports of the block fed by one multi-output driver (the bits of one status word, from one splitter)
        onebit = [j for j, r in enumerate(ins) if pool.inputs[int(r[1:])]['w'] == 1 and j not in nz]
        if len(onebit) >= 2 and not listener_bench and rng.random() < 0.3:
            take = onebit if rng.random() < 0.5 else rng.sample(onebit, rng.randint(2, len(onebit)))
            word = pool.new_input(len(take))[0]
            rid = len(nodes)
            nodes.append({'id': rid, 'kind': 'Reg', 'p': {'en': False, 'rs': False, 'rv': 0}, 'ins': [word], 'ow': [len(take)], 'grp': []})
            sid = len(nodes)
            nodes.append({'id': sid, 'kind': 'BitsLSBF', 'p': {}, 'ins': ['n%d.0' % rid], 'ow': [1] * len(take), 'grp': []})
            for k2, j in enumerate(take):
                bins[j] = 'n%d.%d' % (sid, k2)
        # one port driven by a Constant block (instantiated before the block under test) whose value attribute is
        # re-assigned between cycles (the idiom of the unit tests: c.value = v)
        const_id = None
        cand = [j for j in range(len(ins)) if j not in nz and bins[j][0] == 'i']
        if cand and not listener_bench and rng.random() < 0.12:
            j = rng.choice(cand)
            w = pool.inputs[int(ins[j][1:])]['w']
            const_id = len(nodes)
            nodes.append({'id': const_id, 'kind': 'Constant', 'p': {'value': rng.getrandbits(w)}, 'ins': [], 'ow': [w], 'grp': []})
            bins[j] = 'n%d.0' % const_id
        bid = len(nodes)
        nodes.append({'id': bid, 'kind': k.name, 'p': params, 'ins': bins, 'ow': ows, 'grp': []})
        outs = []
        for j, w in enumerate(ows if not listener_bench else []):
            nid = len(nodes)
            nodes.append({'id': nid, 'kind': 'Reg', 'p': {'en': False, 'rs': False, 'rv': 0}, 'ins': ['n%d.%d' % (bid, j)], 'ow': [w], 'grp': []})
            outs.append('n%d.0' % nid)
        d = {'inputs': pool.inputs, 'nodes': nodes, 'outputs': outs + ['n%d.%d' % (bid, j) for j in range(len(ows))],
             'order': [n['id'] for n in nodes], 'block': bid, 'nonzero_inputs': [int(ins[j][1:]) for j in nz]}
        # wire names are unique per owner only: an inner wire may carry the name of a wire of the enclosing system
        inner = [r for r in bins if r[0] == 'n' and nodes[netlist.parse_ref(r)[1]]['kind'] == 'Reg' and nodes[netlist.parse_ref(r)[1]]['ins'][0][0] == 'i']
        if inner and len(pool.inputs) > 1 and rng.random() < 0.15:
            r = rng.choice(inner)
            src = nodes[netlist.parse_ref(r)[1]]['ins'][0]
            other = rng.choice([i['name'] for i in pool.inputs if i['name'] != src])
            d['names'] = {r: other}
        order = list(d['order'])
        if rng.random() < 0.5:
            rng.shuffle(order)
        sr = rs.get('stimulus')
        fr = rs.get('faults')
        steps = []
        prev = None
        ncyc = sr.choice([12, 25, 40]) if tier == 'quick' else sr.choice([30, 80])
        for _ in range(ncyc):
            vec = netlist.gen_vector(sr, d['inputs'], prev)
            for j in d['nonzero_inputs']:
                # a zero divisor now and then: that cycle is unspecified and not compared, the following ones are
                if vec[j] == 0 and sr.random() < 0.8:
                    vec[j] = sr.choice([1, (1 << d['inputs'][j]['w']) - 1])
                elif sr.random() < 0.04:
                    vec[j] = 0
            prev = vec
            step = {'vec': vec, 'faults': [f for f in ('resort', 'sim_restart', 'extra_settle') if fr.random() < 0.06]}
            if fr.random() < 0.1:
                step['clk0'] = True
            if const_id is not None and fr.random() < 0.3:
                step['const'] = [const_id, fr.getrandbits(nodes[const_id]['ow'][0])]
            if k.name in ('ShiftLeftConstant', 'ShiftRightConstant') and fr.random() < 0.08:
                step['param_n'] = fr.randint(0, ows[0] + 2)      # the shift amount is a block parameter: it is re-assigned between cycles
            steps.append(step)
        # late: the simulator is fetched when only the first blocks exist; the rest (in whatever sub-block it lives) is
        # instantiated afterwards and the simulator fetched again
        if listener_bench:
            return {'design': d, 'order': order, 'perm': None, 'steps': [{'vec': x['vec'], 'faults': []} for x in steps], 'late': None, 'bench': 'listener'}
        return {'design': d, 'order': order, 'perm': rs.sub('perm') if fr.random() < 0.7 else None, 'steps': steps,
                'late': fr.randint(0, len(order) - 1) if (fr.random() < 0.15 and order) else None, 'big': big}
    return gen


class _Bench:
    """simulator listener that drives the design: at every callback it reads the outputs and applies the next vector"""

    def __init__(self, b, vecs):
        self.b, self.vecs, self.k, self.seen = b, vecs, 0, []

    def simulatorUpdated(self):
        self.seen.append({r: self.b.wires[r].get() for r in self.b.desc['outputs']})
        self.k += 1
        if self.k < len(self.vecs):
            self.b.set_inputs(self.vecs[self.k])


def run_listener_bench(scn, log, st):
    d = scn['design']
    b = netlist.Built(d).build(scn['order'])
    with quiet():
        sim = b.hw.getSimulator()
    vecs = [x['vec'] for x in scn['steps']]
    if not vecs:
        return
    bench = _Bench(b, vecs)
    sim.addListener(bench)
    b.set_inputs(vecs[0])
    with quiet():
        sim.clk(len(vecs))
    st.cycles += len(vecs)
    st.probe('stimuli_from_listener')
    st.fault('listener_stimulus', len(vecs))
    ref = netlist.RefModel(d)
    for k, vec in enumerate(vecs):
        ref.set_inputs(vec)
        ref.settle()
        if k >= len(bench.seen):
            raise Violation('fn', 'fn:listener-bench:callbacks', k, 'clk(%d) called the listener %d times' % (len(vecs), len(bench.seen)))
        for r in d['outputs']:
            exp = ref.vals.get(r)
            if exp is not None and bench.seen[k][r] != exp:
                blk = next(n for n in d['nodes'] if n['id'] == d['block'])
                raise Violation('fn', 'fn:%s:listener-bench' % blk['kind'], k + 1,
                                'vector %d applied from inside the listener callback: output %s read %#x at the next callback, expected %#x' % (k, r, bench.seen[k][r], exp))
    seams.check_wire_ranges(b.hw, 'end', len(vecs))
    st.nontrivial = len(vecs) > 2
    log.add('bench', h64(repr(bench.seen)))


def run(scn, log, st):
    if scn.get('bench') == 'listener':
        return run_listener_bench(scn, log, st)
    import copy
    d = copy.deepcopy(scn['design'])      # the run updates block parameters in its private copy
    blk = next(n for n in d['nodes'] if n['id'] == d['block'])
    log.add('block', blk['kind'], repr(sorted(blk['p'].items())), [netlist.sig_widths(d)[r] for r in blk['ins']], blk['ow'])
    b = netlist.Built(d)
    late = scn.get('late')
    if late is not None:
        b.build(scn['order'][:late])
        with quiet():
            b.hw.getSimulator()
        st.fault('late_add')
        st.probe('block_added_after_simulator')
    b.build(scn['order'])
    st.sched(tuple(scn['order']), scn.get('perm'), tuple(tuple(s['faults']) for s in scn['steps']))
    if scn.get('perm') is not None:
        seams.perm_children(b.hw, random.Random(scn['perm']), st)
    if scn['steps']:
        b.set_inputs(scn['steps'][0]['vec'])
    with quiet():
        sim = b.hw.getSimulator()
    ref = netlist.RefModel(d)
    if scn['steps']:
        ref.set_inputs(scn['steps'][0]['vec'])
    ref.settle()
    where = 'after simulator creation'
    if late is None:
        # (an existing simulator is re-sorted by getSimulator(), not re-settled: compared from the first clk() on)
        netlist.compare(b, ref.vals, 0, where, sigprefix='fn', use_poison=False)
    outs_seen = set()
    for si, step in enumerate(scn['steps'], 1):
        for f in step['faults']:
            if f == 'resort':
                with quiet():
                    sim = b.hw.getSimulator()
                st.fault('resort')
            elif f == 'sim_restart':
                with quiet():
                    sim = seams.restart_simulator(b.hw, st)
            else:
                sim.propagateAll()
                st.fault('extra_settle')
        if step.get('param_n') is not None:
            b.objs[d['block']].addParameter('n', step['param_n'])
            blk['p'] = dict(blk['p'], n=step['param_n'])
            st.fault('param_update')
        if step.get('const') and step['const'][0] in b.objs:
            cn = next(n for n in d['nodes'] if n['id'] == step['const'][0])
            b.objs[cn['id']].value = step['const'][1]
            cn['p'] = dict(cn['p'], value=step['const'][1])
            st.fault('const_update')
            st.probe('constant_reassigned')
        b.set_inputs(step['vec'])
        ref.set_inputs(step['vec'])
        ref.settle()
        if step.get('clk0'):
            # clk(0): settle only, no edge
            with quiet():
                sim.clk(0)
            netlist.compare(b, ref.vals, si, 'after clk(0) in cycle %d' % si, sigprefix='fn', use_poison=False)
            st.probe('settled_by_clk0')
        with quiet():
            sim.clk(1)
        ref.edge()
        st.cycles += 1
        where = 'after cycle %d' % si
        netlist.compare(b, ref.vals, si, where, sigprefix='fn', use_poison=False)
        bad = seams.topo_order_violations(sim)
        if bad:
            raise Violation('order', 'topo-order', si, '%s: %s before its driver %s' % (where, bad[0][1], bad[0][0]))
        if si % 8 == 1:
            local_fixpoint(sim, si, where)
        seams.check_wire_ranges(b.hw, where, si)
        seams.check_prepared_empty(where, si)
        ov = tuple(b.wires['n%d.%d' % (d['block'], j)].get() for j in range(len(blk['ow'])))
        outs_seen.add(ov)
        log.add(si, ov)
    st.state(blk['kind'], repr(sorted(blk['p'].items())), tuple(blk['ow']))
    st.probe('kind_' + blk['kind'])
    if scn.get('big'):
        st.probe('beyond_usual_sizes')
        if max(list(netlist.sig_widths(d).values()) + [0]) > 64:
            st.probe('wider_than_64_bits')
        if len(blk['ins']) > 64 or len(blk['ow']) > 64:
            st.probe('more_than_64_ports')
    if len(outs_seen) >= 2:
        st.probe('output_toggled')
        if st.faults:
            st.nontrivial = True


def shrink(scn):
    yield from shrink_list(scn, 'steps', 1)
    if scn.get('perm') is not None:
        yield dict(scn, perm=None)
    if scn.get('late') is not None:
        yield dict(scn, late=None)
    if any(s['faults'] for s in scn['steps']):
        yield dict(scn, steps=[dict(s, faults=[]) for s in scn['steps']])
    canon = sorted(scn['order'])
    if scn['order'] != canon:
        yield dict(scn, order=canon)
    # simplify values: zero each input across the history (except divisors)
    nz = set(scn['design'].get('nonzero_inputs', []))
    for j in range(len(scn['design']['inputs'])):
        if j not in nz and any(s['vec'][j] for s in scn['steps']):
            yield dict(scn, steps=[dict(s, vec=s['vec'][:j] + [0] + s['vec'][j + 1:]) for s in scn['steps']])

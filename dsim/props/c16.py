"""C16 - AXI4-Stream adapters never lose, duplicate or corrupt a beat.

Real: Axi2Reg, Reg2Axi (and both behind a VitisKernelFSM as a kernel).  Fakes stepped by the
same loop: an AXI master (compliant hold-until-accepted, or arbitrary VALID toggling - the
statement is phrased over beats), an AXI slave with seeded READY, a controller issuing
start / reset / done / load under the stated constraint (done only after a completed
transfer).  Faults: stall, burst, reset_mid, done_pulse, restart (start while active and
while inactive), load_pending, plus a re-drawn visit order of the adapter's registers before
every edge.  Oracles are monitors over the recorded per-cycle history, phrased exactly as
the statement: "beat" = VALID & READY & active in that cycle.
"""
import math
import random

import py4hw
from py4hw.logic.bus.axi import AXI4StreamInterface
from py4hw.emulation.vitiswrapping import Axi2Reg, Reg2Axi, VitisKernelFSM

from ..core import Violation, shrink_list, h64
from .. import seams
from ..seams import quiet

PROP = 'C16'
TIERS = {'quick': 7500, 'thorough': 104000}
RULE = ('each run: one adapter (Axi2Reg or Reg2Axi, register width 1-64) or a kernel of 1-3 Axi2Reg + 1-2 Reg2Axi behind '
        'VitisKernelFSM, 40-400 cycles of seeded control pulses and peer handshakes with stalls, bursts, reset/done/'
        'restart landing inside transfers; non-trivial = >= 1 beat was transferred and >= 1 fault landed while a '
        'transfer was pending or in the cycle of a beat; distinct = distinct run digests; distinct_states = distinct '
        '(adapter state, control vector) pairs')
REAL = ['py4hw.emulation.vitiswrapping.Axi2Reg', 'py4hw.emulation.vitiswrapping.Reg2Axi',
        'py4hw.emulation.vitiswrapping.VitisKernelFSM', 'py4hw.logic.bus.axi.AXI4StreamInterface', 'py4hw simulator']
STUB = ['AXI master', 'AXI slave', 'kernel controller (start/reset/done/load)']
ASSUMPTIONS = ['"accepted beat" is taken in the adapter\'s own sense: VALID & READY & active in the same cycle',
               'done is only pulsed after a beat was transferred in the current activation',
               'TDATA is only checked against load pulses given while the adapter was active']
PROBES = ['adapter_added_late_in_subblock', 'reg_in_from_other_clock_domain', 'register_wider_than_64', 'beat', 'backpressure_hold', 'reset_in_beat_cycle', 'reset_while_pending', 'done_after_transfer', 'restart_active',
          'restart_inactive', 'load_while_pending', 'load_in_beat_cycle', 'back_to_back', 'kernel_done']


def gen(rs, tier, index):
    rng = rs.get('design')
    mode = rng.choice(['a2r', 'a2r', 'r2a', 'r2a', 'kernel'])
    ncyc = rng.choice([40, 80, 160]) if tier == 'quick' else rng.choice([80, 200, 400])
    scn = {'mode': mode, 'w': rng.choice([1, 7, 8, 9, 16, 31, 32, 33, 63, 64, rng.randint(1, 64)]), 'ncyc': ncyc,
           'ctl_seed': rs.sub('ctl'), 'peer_seed': rs.sub('peer'), 'perm_seed': rs.sub('perm'),
           'master': rng.choice(['compliant', 'compliant', 'toggling']),
           'p_reset': rng.choice([0.0, 0.01, 0.04]), 'p_done': rng.choice([0.0, 0.05, 0.2]),
           'p_start': rng.choice([0.05, 0.15, 0.4]), 'p_load': rng.choice([0.05, 0.2, 0.6]),
           'p_ready': rng.choice([0.1, 0.5, 0.9, 1.0]), 'p_valid': rng.choice([0.1, 0.5, 0.9, 1.0]),
           'stall_len': rng.choice([0, 3, 12])}
    # stream width: registers wider than 64 bits sit on wider streams (128 / 512 bit data)
    scn['sw'] = 64
    if mode != 'kernel' and rng.random() < 0.25:
        scn['sw'] = rng.choice([128, 512])
        scn['w'] = rng.choice([64, 65, 96, 128, rng.randint(1, scn['sw']), scn['sw']])
        scn['w'] = min(scn['w'], scn['sw'])
    # late_container: the adapter is instantiated inside an existing sub-block after the simulator was fetched (and ran)
    scn['late_container'] = rng.random() < 0.2 and mode != 'kernel'
    # dut_domain (register-to-stream): reg_in comes straight from a register that sits in a clock domain of its own
    scn['dut_domain'] = rng.random() < 0.25 and mode == 'r2a'
    if mode == 'kernel':
        scn['k'] = rng.randint(1, 3)
        scn['m'] = rng.randint(1, 2)
        scn['w'] = rng.choice([1, 8, 16, 32])
    # explicit cut list for the minimiser: cycles removed from the schedule
    scn['cycles'] = list(range(ncyc))
    return scn


def mkstream(hw, name, sw=64):
    return AXI4StreamInterface(hw, name, sw, has_tlast=True, has_tkeep=True)


# --------------------------------------------------------------------------- monitors

def mon_axi2reg(h, W, name=''):
    mask = (1 << W) - 1
    for t, o in enumerate(h):
        if o['tready'] != o['active']:
            raise Violation('a2r', 'a2r:ready!=active', t, '%scycle %d READY=%d active=%d' % (name, t, o['tready'], o['active']))
        if t == 0:
            if (o['active'], o['q'], o['loaded']) != (0, 0, 0):
                raise Violation('a2r', 'a2r:powerup', 0, '%spower-up state %s' % (name, o))
            continue
        p = h[t - 1]
        exp_active = 0 if (p['reset'] or p['done']) else (1 if p['start'] else p['active'])
        if o['active'] != exp_active:
            raise Violation('a2r', 'a2r:active', t, '%scycle %d active=%d expected %d (prev %s)' % (name, t, o['active'], exp_active, ctl(p)))
        clear = p['reset'] or p['done'] or (p['start'] and not p['active'])
        beat = p['tvalid'] and p['tready'] and p['active']
        if clear:
            exp = (0, 0)
        elif beat:
            exp = (p['tdata'] & mask, 1)
        else:
            exp = (p['q'], p['loaded'])
        if (o['q'], o['loaded']) != exp:
            what = 'cleared' if clear else ('captured' if beat else 'held')
            raise Violation('a2r', 'a2r:%s' % what, t, '%scycle %d (q,loaded)=(%#x,%d) expected (%#x,%d) [%s] prev %s' % (
                name, t, o['q'], o['loaded'], exp[0], exp[1], what, ctl(p)))


def ctl(p):
    return {k: p[k] for k in ('start', 'reset', 'done', 'active') if k in p}


def mon_reg2axi(h, W, name=''):
    keep = (1 << math.ceil(W / 8)) - 1
    last_load = None        # value captured by the latest load pulse while active
    ambiguous = False       # a load pulse while inactive happened since: the statement does not rule on it
    load_age = None
    for t, o in enumerate(h):
        if o['tlast'] != o['tvalid']:
            raise Violation('r2a', 'r2a:last!=valid', t, '%scycle %d LAST=%d VALID=%d' % (name, t, o['tlast'], o['tvalid']))
        if o['tkeep'] != keep:
            raise Violation('r2a', 'r2a:keep', t, '%scycle %d KEEP=%#x expected %#x' % (name, t, o['tkeep'], keep))
        if o['tvalid'] and last_load is not None and not ambiguous and o['tdata'] != last_load:
            raise Violation('r2a', 'r2a:data', t, '%scycle %d offers %#x, latest load pulse captured %#x' % (name, t, o['tdata'], last_load))
        if o['tvalid'] and last_load is None and not ambiguous:
            raise Violation('r2a', 'r2a:valid-without-load', t, '%scycle %d VALID without any load pulse' % (name, t))
        if t == 0:
            if (o['active'], o['tvalid'], o['sent']) != (0, 0, 0):
                raise Violation('r2a', 'r2a:powerup', 0, '%spower-up state %s' % (name, o))
        else:
            p = h[t - 1]
            exp_active = 0 if (p['reset'] or p['done']) else (1 if p['start'] else p['active'])
            if o['active'] != exp_active:
                raise Violation('r2a', 'r2a:active', t, '%scycle %d active=%d expected %d' % (name, t, o['active'], exp_active))
            beat = p['tvalid'] and p['tready'] and p['active']
            load = p['load'] and p['active']
            if p['tvalid'] and not beat and not p['reset'] and not o['tvalid']:
                raise Violation('r2a', 'r2a:valid-dropped', t, '%scycle %d VALID dropped without accepted beat or reset (prev %s)' % (name, t, ctl(p)))
            if beat and not load and o['tvalid']:
                raise Violation('r2a', 'r2a:duplicate-beat', t, '%scycle %d VALID still up after the beat was accepted' % (name, t))
            if o['tvalid'] and not p['tvalid'] and not load:
                raise Violation('r2a', 'r2a:valid-spurious', t, '%scycle %d VALID raised without a load pulse' % (name, t))
            if o['sent'] and not p['sent'] and not beat:
                raise Violation('r2a', 'r2a:sent-without-beat', t, '%scycle %d sent raised without an accepted beat' % (name, t))
            # bounded progress: a load while active (no reset, no beat in that cycle) shows VALID within 4 cycles
            if load_age is not None:
                if o['tvalid']:
                    load_age = None
                else:
                    load_age += 1
                    if load_age > 4:
                        raise Violation('r2a', 'r2a:load-lost', t, '%scycle %d: load pulse %d cycles ago never produced VALID' % (name, t, load_age))
            if p['reset'] or p['done'] or not p['active']:
                load_age = None
        # bookkeeping for the next cycle
        if o['load'] and o['active']:
            last_load = o['reg_in'] & ((1 << W) - 1)
            ambiguous = False
            beat_now = o['tvalid'] and o['tready']
            if not o['reset'] and not beat_now and not o['tvalid']:
                load_age = 0
        elif o['load'] and not o['active']:
            ambiguous = True


# --------------------------------------------------------------------------- runs

def run(scn, log, st):
    {'a2r': run_a2r, 'r2a': run_r2a, 'kernel': run_kernel}[scn['mode']](scn, log, st)


def pulses(crng, scn, mstate):
    """controller: seeded pulses under the constraint 'done only after a completed transfer'"""
    start = 1 if crng.random() < scn['p_start'] else 0
    reset = 1 if crng.random() < scn['p_reset'] else 0
    done = 1 if (crng.random() < scn['p_done'] and mstate['transferred']) else 0
    return start, reset, done


class _Kernel(py4hw.Logic):
    """an existing sub-block (a kernel wrapper) that already contains something"""

    def __init__(self, parent, name):
        super().__init__(parent, name)
        t = self.wire('tie', 1)
        py4hw.Constant(self, 'tie', 0, t)
        py4hw.Buf(self, 'keep', t, self.wire('kept', 1))


def container(hw, scn, st):
    """where the adapter is instantiated: the system itself, or - late_container - an existing sub-block of a system whose
    simulator has already been fetched and has run"""
    if not scn.get('late_container'):
        return hw
    k = _Kernel(hw, 'kernel')
    with quiet():
        hw.getSimulator().clk(2)
    st.fault('late_add')
    st.probe('adapter_added_late_in_subblock')
    return k


def run_a2r(scn, log, st):
    W = scn['w']
    hw = py4hw.HWSystem()
    start, reset, done = hw.wire('ap_start'), hw.wire('ap_reset'), hw.wire('ap_done')
    SW = scn.get('sw', 64)
    s = mkstream(hw, 's', SW)
    if W > 64:
        st.probe('register_wider_than_64')
    q, loaded, active = hw.wire('q', W), hw.wire('loaded'), hw.wire('active')
    Axi2Reg(container(hw, scn, st), 'dut', start, reset, done, s, q, loaded, active)
    with quiet():
        sim = hw.getSimulator()
    crng, prng = random.Random(scn['ctl_seed']), random.Random(scn['peer_seed'])
    seams.EdgeShuffler(sim, random.Random(scn['perm_seed']), st)
    h = []
    ms = {'transferred': False}
    m_valid, m_data, stall = 0, 0, 0
    keep = set(scn['cycles'])
    for t in range(scn['ncyc']):
        if t not in keep:
            crng.random(), prng.random()
            continue
        a_start, a_reset, a_done = pulses(crng, scn, ms)
        # master
        if scn['master'] == 'compliant':
            if not m_valid:
                if stall > 0:
                    stall -= 1
                elif prng.random() < scn['p_valid']:
                    m_valid, m_data = 1, prng.getrandbits(SW) if prng.random() < 0.8 else prng.choice([0, (1 << SW) - 1, 1 << (SW - 1)])
                elif scn['stall_len'] and prng.random() < 0.1:
                    stall = prng.randint(1, scn['stall_len'])
                    st.fault('gap')
        else:
            m_valid = 1 if prng.random() < scn['p_valid'] else 0
            m_data = prng.getrandbits(SW)
        for w, v in ((start, a_start), (reset, a_reset), (done, a_done), (s.tvalid, m_valid), (s.tdata, m_data)):
            w.put(v)
        sim.propagateAll()
        o = {'start': a_start, 'reset': a_reset, 'done': a_done, 'tvalid': m_valid, 'tdata': m_data,
             'tready': s.tready.get(), 'q': q.get(), 'loaded': loaded.get(), 'active': active.get()}
        h.append(o)
        beat = m_valid and o['tready'] and o['active']
        if beat:
            st.probe('beat')
            ms['transferred'] = True
            if h[-2:-1] and h[-2]['tvalid'] and h[-2]['tready'] and h[-2]['active']:
                st.probe('back_to_back')
            if a_reset:
                st.probe('reset_in_beat_cycle')
                st.fault('reset_mid')
        if m_valid and not o['tready']:
            st.probe('backpressure_hold')
            st.fault('stall')
        if a_done:
            st.probe('done_after_transfer')
            st.fault('done_pulse')
        if a_start:
            st.probe('restart_active' if o['active'] else 'restart_inactive')
            st.fault('restart')
        if a_reset and o['loaded']:
            st.probe('reset_while_pending')
            st.fault('reset_mid')
        if a_reset or a_done or (a_start and not o['active']):
            ms['transferred'] = False
        if scn['master'] == 'compliant' and beat:
            m_valid = 0
        with quiet():
            sim.clk(1)
        st.cycles += 1
        st.state('a2r', o['active'], o['loaded'], a_start, a_reset, a_done, m_valid)
        seams.check_prepared_empty('cycle %d' % t, t)
        log.add(t, tuple(sorted(o.items())))
    seams.check_wire_ranges(hw, 'end', len(h))
    mon_axi2reg(h, W)
    if st.probes.get('beat') and (st.probes.get('reset_in_beat_cycle') or st.probes.get('reset_while_pending') or
                                  st.probes.get('done_after_transfer') or st.probes.get('backpressure_hold') or st.probes.get('restart_active')):
        st.nontrivial = True


def run_r2a(scn, log, st):
    W = scn['w']
    hw = py4hw.HWSystem()
    start, reset, done, load = hw.wire('ap_start'), hw.wire('ap_reset'), hw.wire('ap_done'), hw.wire('load_outs')
    reg_in = hw.wire('reg_in', W)
    s = mkstream(hw, 's', scn.get('sw', 64))
    if W > 64:
        st.probe('register_wider_than_64')
    sent, active = hw.wire('sent'), hw.wire('active')
    reg_src = reg_in
    if scn.get('dut_domain'):
        reg_src = hw.wire('reg_src', W)
        dr = py4hw.Reg(hw, 'dutreg', reg_src, reg_in)
        dr.clockDriver = py4hw.ClockDriver('dutclk', base=hw.clockDriver)
        st.probe('reg_in_from_other_clock_domain')
    Reg2Axi(container(hw, scn, st), 'dut', start, reset, done, load, reg_in, s, sent, active)
    with quiet():
        sim = hw.getSimulator()
    crng, prng = random.Random(scn['ctl_seed']), random.Random(scn['peer_seed'])
    seams.EdgeShuffler(sim, random.Random(scn['perm_seed']), st)
    h = []
    ms = {'transferred': False}
    stall = 0
    keep = set(scn['cycles'])
    for t in range(scn['ncyc']):
        if t not in keep:
            crng.random(), prng.random()
            continue
        a_start, a_reset, a_done = pulses(crng, scn, ms)
        a_load = 1 if crng.random() < scn['p_load'] else 0
        a_reg = crng.getrandbits(W) if crng.random() < 0.8 else crng.choice([0, (1 << W) - 1])
        if stall > 0:
            stall -= 1
            a_ready = 0
        else:
            a_ready = 1 if prng.random() < scn['p_ready'] else 0
            if scn['stall_len'] and prng.random() < 0.08:
                stall = prng.randint(1, scn['stall_len'])
        for w, v in ((start, a_start), (reset, a_reset), (done, a_done), (load, a_load), (reg_src, a_reg), (s.tready, a_ready)):
            w.put(v)
        sim.propagateAll()
        o = {'start': a_start, 'reset': a_reset, 'done': a_done, 'load': a_load, 'reg_in': reg_in.get(), 'tready': a_ready,
             'tvalid': s.tvalid.get(), 'tdata': s.tdata.get(), 'tlast': s.tlast.get(), 'tkeep': s.tkeep.get(),
             'sent': sent.get(), 'active': active.get()}
        h.append(o)
        beat = o['tvalid'] and a_ready and o['active']
        if beat:
            st.probe('beat')
            ms['transferred'] = True
            if a_reset:
                st.probe('reset_in_beat_cycle')
                st.fault('reset_mid')
            if a_load:
                st.probe('load_in_beat_cycle')
                st.fault('load_pending')
        if o['tvalid'] and not a_ready:
            st.probe('backpressure_hold')
            st.fault('stall')
            if a_load and o['active']:
                st.probe('load_while_pending')
                st.fault('load_pending')
            if a_reset:
                st.probe('reset_while_pending')
                st.fault('reset_mid')
        if a_done:
            st.probe('done_after_transfer')
            st.fault('done_pulse')
        if a_start:
            st.probe('restart_active' if o['active'] else 'restart_inactive')
            st.fault('restart')
        if a_reset or a_done or (a_start and not o['active']):
            ms['transferred'] = False
        with quiet():
            sim.clk(1)
        st.cycles += 1
        st.state('r2a', o['active'], o['tvalid'], o['sent'], a_start, a_reset, a_done, a_load, a_ready)
        seams.check_prepared_empty('cycle %d' % t, t)
        log.add(t, tuple(sorted(o.items())))
    seams.check_wire_ranges(hw, 'end', len(h))
    mon_reg2axi(h, W)
    if st.probes.get('beat') and (st.probes.get('reset_in_beat_cycle') or st.probes.get('reset_while_pending') or
                                  st.probes.get('load_while_pending') or st.probes.get('backpressure_hold')):
        st.nontrivial = True


def run_kernel(scn, log, st):
    """k stream-to-register adapters, the AND of their loaded flags as load_outs, m register-to-stream
    adapters, VitisKernelFSM producing done from the AND of the sent flags (wired as in createHILVitis;
    the DUT between them is a fake: out_j = in_0 + j)"""
    W, K, Mo = scn['w'], scn['k'], scn['m']
    hw = py4hw.HWSystem()
    start, reset = hw.wire('ap_start'), hw.wire('ap_reset')
    done, idle, ready = hw.wire('ap_done'), hw.wire('ap_idle'), hw.wire('ap_ready')
    ins, loadeds, a_act, sin = [], [], [], []
    for i in range(K):
        s = mkstream(hw, 'axis%02d' % i)
        qi, li, ai = hw.wire('in%d' % i, W), hw.wire('loaded%d' % i), hw.wire('a2r_active%d' % i)
        Axi2Reg(hw, 'axis%02d' % i, start, reset, done, s, qi, li, ai)
        ins.append(qi), loadeds.append(li), a_act.append(ai), sin.append(s)
    load_outs = hw.wire('load_outs')
    if K == 1:
        py4hw.Buf(hw, 'c_load_outs', loadeds[0], load_outs)
    else:
        py4hw.And(hw, 'c_load_outs', loadeds, load_outs)
    outs, sents, r_act, sout = [], [], [], []
    for j in range(Mo):
        s = mkstream(hw, 'axis%02d' % (K + j))
        oj = hw.wire('out%d' % j, W)
        kj = hw.wire('k%d' % j, W)
        py4hw.Constant(hw, 'k%d' % j, j, kj)
        py4hw.Add(hw, 'dut%d' % j, ins[0], kj, oj)
        sj, aj = hw.wire('sent%d' % j), hw.wire('r2a_active%d' % j)
        Reg2Axi(hw, 'reg2axi%d' % j, start, reset, done, load_outs, oj, s, sj, aj)
        outs.append(oj), sents.append(sj), r_act.append(aj), sout.append(s)
    all_sent = hw.wire('all_sent')
    if Mo == 1:
        py4hw.Buf(hw, 'all_sent', sents[0], all_sent)
    else:
        py4hw.And(hw, 'all_sent', sents, all_sent)
    VitisKernelFSM(hw, 'fsm', start, reset, done, idle, ready, load_outs, all_sent)
    with quiet():
        sim = hw.getSimulator()
    crng, prng = random.Random(scn['ctl_seed']), random.Random(scn['peer_seed'])
    seams.EdgeShuffler(sim, random.Random(scn['perm_seed']), st)
    hin = [[] for _ in range(K)]
    hout = [[] for _ in range(Mo)]
    mv = [0] * K
    md = [0] * K
    keep = set(scn['cycles'])
    for t in range(scn['ncyc']):
        if t not in keep:
            crng.random(), prng.random()
            continue
        a_start = 1 if crng.random() < scn['p_start'] else 0
        a_reset = 1 if crng.random() < scn['p_reset'] else 0
        start.put(a_start)
        reset.put(a_reset)
        for i in range(K):
            if not mv[i] and prng.random() < scn['p_valid']:
                mv[i], md[i] = 1, prng.getrandbits(64)
            sin[i].tvalid.put(mv[i])
            sin[i].tdata.put(md[i])
        rdy = [1 if prng.random() < scn['p_ready'] else 0 for _ in range(Mo)]
        for j in range(Mo):
            sout[j].tready.put(rdy[j])
        sim.propagateAll()
        d = done.get()
        if d:
            st.probe('kernel_done')
            st.probe('done_after_transfer')
        for i in range(K):
            o = {'start': a_start, 'reset': a_reset, 'done': d, 'tvalid': mv[i], 'tdata': md[i], 'tready': sin[i].tready.get(),
                 'q': ins[i].get(), 'loaded': loadeds[i].get(), 'active': a_act[i].get()}
            hin[i].append(o)
            if mv[i] and o['tready'] and o['active']:
                mv[i] = 0
                st.probe('beat')
        for j in range(Mo):
            s = sout[j]
            o = {'start': a_start, 'reset': a_reset, 'done': d, 'load': load_outs.get(), 'reg_in': outs[j].get(), 'tready': rdy[j],
                 'tvalid': s.tvalid.get(), 'tdata': s.tdata.get(), 'tlast': s.tlast.get(), 'tkeep': s.tkeep.get(),
                 'sent': sents[j].get(), 'active': r_act[j].get()}
            hout[j].append(o)
            if o['tvalid'] and rdy[j] and o['active']:
                st.probe('beat')
            if o['tvalid'] and not rdy[j]:
                st.probe('backpressure_hold')
                st.fault('stall')
        if a_reset:
            st.fault('reset_mid')
        with quiet():
            sim.clk(1)
        st.cycles += 1
        seams.check_prepared_empty('cycle %d' % t, t)
        log.add(t, h64(repr(hin)[-400:]), h64(repr(hout)[-400:]))
    seams.check_wire_ranges(hw, 'end', scn['ncyc'])
    for i in range(K):
        mon_axi2reg(hin[i], W, name='in%d: ' % i)
    for j in range(Mo):
        mon_reg2axi(hout[j], W, name='out%d: ' % j)
    if st.probes.get('beat') and st.probes.get('kernel_done'):
        st.nontrivial = True


def shrink(scn):
    # cut cycles out of the schedule (the PRNG draws of a cut cycle are still consumed, so the rest is unchanged)
    yield from shrink_list(scn, 'cycles', 2)

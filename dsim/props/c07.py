"""C07 - integer arithmetic blocks compute their mathematical function for all inputs.
See _blockcheck.py for the (plainly stated, weaker) role of the simulation here."""
from . import _blockcheck as bc
from ..catalog import kinds_with

PROP = 'C07'
TIERS = {'quick': 9000, 'thorough': 700000}
RULE = ('each run: one arithmetic library block (add +-carry, signed add/sub, sub, neg, abs, sign, sign/zero extend, mul, '
        'signed mul, div, mod, signed div, constant/variable logical/arithmetic shifts, rotates, leading-zero count, '
        'binary-to-BCD) at seeded (mixed) widths 1-70, inside a registered testbench, 12-80 boundary-biased toggling '
        'vectors; non-trivial = the block output took >= 2 values and >= 1 schedule fault fired; distinct = distinct run '
        'digests; distinct_states = distinct (kind, parameters, output widths) configurations')
REAL = ['py4hw.logic.arithmetic / bitwise shift blocks', 'py4hw simulator']
STUB = ['stimulus']
ASSUMPTIONS = ['oracle = integer operation reduced modulo 2**(output width), two\'s complement for signed variants; '
               'division/modulo only for non-zero divisors; rotation amounts up to the data width; Neg/Abs at equal widths']
PROBES = ['output_toggled', 'settled_by_clk0', 'block_added_after_simulator', 'constant_reassigned', 'stimuli_from_listener'] + ['kind_' + k.name for k in kinds_with(tag='c07')]
gen = bc.make_gen('c07')
run = bc.run
shrink = bc.shrink

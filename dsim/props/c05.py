"""C05 - clock edges are atomic: every sequential block sees pre-edge values.

Scheduler decides: visit order of clock drivers, of the clockables of each driver and of
listeners, re-drawn before every edge; how a run is split into clk() calls; where a listener
cancels a clk(n) (stop) and the run resumes; re-sorts and simulator restarts between calls.
Oracles: (a) twin = same description in canonical order, stepped one edge at a time by the
harness (fixed order, no faults); every wire and every sequential leaf's integer state must
agree after each call; (b) pure-Python two-phase reference computed from the pre-edge
snapshot (catches order-independent defects); (c) Wire.prepared empty after every call, no
wire prepared twice in one edge; (d) total_clks advances by exactly the executed cycles.
"""
import copy
import random

from ..core import Violation, shrink_list, h64
from .. import seams, netlist
from ..catalog import KINDS, kinds_with
from ..seams import quiet
from py4hw.base import Wire
import py4hw

PROP = 'C05'
TIERS = {'quick': 4500, 'thorough': 280000}
RULE = ('each run: one seeded design of 3-30 sequential library blocks wired to each other (chains, rings, swap '
        'pairs, memories, counters, combinational logic in the feedback paths, 1-3 clock drivers); the perturbed '
        'system re-draws every visit order before every edge and splits/cancels/restarts the run, the twin steps '
        'one edge at a time; non-trivial = at least one permutation with >=2 clockables fired and >=1 edge ran; '
        'distinct = distinct run digests')
REAL = ['py4hw.simulation.Simulator.clk/_clk_cycle/stop', 'py4hw.base.Wire.prepare/settleAll',
        'py4hw.logic.storage / arithmetic / clock sequential blocks', 'py4hw.logic.simulation.Sequence']
STUB = ['stimulus (wire.put between clk calls)', 'cancelling listener']
ASSUMPTIONS = ['inputs change only between clk calls, identically in both systems',
               'reference models in dsim/catalog.py']
PROBES = ['ring_of_thousands', 'deep_hierarchy', 'stop_from_clock_method', 'edge_aborted_by_exception', 'clk_from_inside_listener', 'parameter_reassigned_after_read', 'bidir_sequential', 'simulator_fetched_in_clock', 'fsm_block', 'swap_pair', 'ring', 'memory', 'split_clk', 'stop_cancel', 'multi_driver']


def gen(rs, tier, index):
    rng = rs.get('design')
    comb = [KINDS[k] for k in ('And2', 'Or2', 'Xor2', 'Not', 'Mux2', 'Add', 'Sub', 'Equal', 'Buf', 'Range', 'ConcatenateMSBF', 'Constant')]
    seqk = [k for k in kinds_with(seq=True) if k.name not in ('ClockDivider',)] + [KINDS['ClockDivider']]
    # FSM blocks: behavioural library blocks (no catalogue model: the twin is their oracle) and the message sequencer
    seqk += [k for k in kinds_with(tag='transpiled')] + [KINDS['MsgSequencer']]
    seqk += kinds_with(tag='simpeek')      # a monitor block that fetches the simulator from inside clock()
    seqk += kinds_with(tag='moore_propagate')   # state updated in clock(), output shown by propagate()
    seqk += kinds_with(tag='param')        # a parameterised block that forwards its parameter by reference (one or two levels)
    shape = rng.random()
    abort = False
    bulk = None
    if rng.random() < (0.004 if tier == 'quick' else 0.002):
        # bulk: a ring of more than a thousand registers (thresholds inside the two-phase update: lists, counters, tables)
        bulk = [rng.choice([300, 1100, 1100, 2100, 4200] if tier == 'quick' else [1100, 2100, 4200, 9000]), rng.choice([8, 16, 40]), rs.sub('bulk')]
        d, _ = netlist.bulk_ring(*bulk)
    elif shape < 0.2:
        d = swap_ring_design(rng)
    elif shape < 0.27:
        # abort: blocks whose state lives in wires only, plus a checker block whose clock() raises on demand: the caller
        # catches the exception (the edge was not completed and does not count), changes the inputs and goes on
        # (only registers without enable: they recompute everything from their inputs at the next edge. Blocks that keep
        # state in attributes - enabled registers, sequences, memories - are left half updated by an aborted edge on the
        # unchanged tree as well; nothing can be demanded of them)
        d = netlist.gen_design(rng, rng.choice([4, 6, 10]), comb, hier_depth=rng.choice([0, 1]), feedback=rng.choice([0.2, 0.4]),
                               seq_kinds=[KINDS['Reg']], seq_frac=0.7, maxw=40)
        for nd in d['nodes']:
            if nd['kind'] == 'Reg' and nd['p']['en']:
                nd['p'] = dict(nd['p'], en=False)
                del nd['ins'][1]
        nm = 'i%d' % len(d['inputs'])
        d['inputs'].append({'name': nm, 'w': 1, 'role': 'throw'})
        nid = max(n['id'] for n in d['nodes']) + 1
        d['nodes'].append({'id': nid, 'kind': 'Thrower', 'p': {}, 'ins': [nm], 'ow': [1], 'grp': []})
        d['outputs'].append('n%d.0' % nid)
        d['order'].append(nid)
        abort = True
    else:
        n = rng.choice([4, 6, 10, 16]) if tier == 'quick' else rng.choice([6, 12, 24, 40])
        d = netlist.gen_design(rng, n, comb, hier_depth=rng.choice([0, 1, 2]), feedback=rng.choice([0.2, 0.4, 0.6]),
                               seq_kinds=seqk, seq_frac=rng.choice([0.5, 0.7, 0.85]), maxw=40, big=rng.random() < 0.03)
    if not abort and not bulk and rng.random() < 0.05:
        netlist.deepen(d, rng, rng.choice([12, 16, 17, 24, 33]))      # one group nested far deeper than usual
    stopblk = None
    if not abort and not d.get('ring') and d['inputs'] and rng.random() < 0.3:
        # a bench block that can end a clk(n) call from inside its clock() method
        stopblk = max(n_['id'] for n_ in d['nodes']) + 1
        src = rng.choice(d['inputs'])
        d['nodes'].append({'id': stopblk, 'kind': 'StopBlock', 'p': {}, 'ins': [src['name']], 'ow': [src['w']], 'grp': []})
        d['outputs'].append('n%d.0' % stopblk)
        d['order'].append(stopblk)
    # extra ungated clock drivers on some groups (perm_drivers)
    groups = sorted({'/'.join(n['grp'][:k]) for n in d['nodes'] for k in range(1, len(n['grp']) + 1)})
    gd = {}
    for g in groups:
        if rng.random() < 0.4:
            gd[g] = {'name': rng.choice(['clk_b', 'clk_' + g.replace('/', '_')]), 'en': None}
    if gd:
        d['group_driver'] = gd
    d['bidir'] = []
    for _ in range(rng.choice([0, 0, 1, 2]) if not abort else 0):
        w = rng.choice([1, 8, 16])
        d['bidir'].append({'w': w, 'values': [rng.getrandbits(w) for _ in range(rng.randint(2, 5))]})
    order = list(d['order'])
    if rng.random() < 0.6:
        rng.shuffle(order)
    fr = rs.get('faults')
    sr = rs.get('stimulus')
    steps = []
    prev = None
    for si in range(sr.randint(3, 12)):
        vec = netlist.gen_vector(sr, d['inputs'], prev)
        if abort:
            vec[-1] = 0
        prev = vec
        n = sr.choice([1, 1, 2, 3, 5, 8, 20])
        if si == 1 and fr.random() < 0.02:
            n = fr.choice([300, 600, 1100, 2500])         # one long burst: thousands of edges in a few clk() calls
        # partition of n into clk() calls
        parts = []
        left = n
        while left > 0:
            k = left if fr.random() < 0.4 else fr.randint(1, left)
            parts.append(k)
            left -= k
        stop_at = fr.randint(1, n) if (n > 1 and fr.random() < 0.2) else None
        faults = [f for f in ('resort', 'sim_restart') if fr.random() < 0.12]
        steps.append({'vec': vec, 'n': n, 'parts': parts, 'stop_at': stop_at, 'faults': faults,
                      'pseed': rs.sub('perm%d' % si)})
        if stop_at is not None and stopblk is not None and fr.random() < 0.6:
            steps[-1]['stop_from'] = stopblk          # the stop request comes from the clock() method of this block
        if abort and fr.random() < 0.4:
            steps[-1]['throw'] = netlist.gen_vector(sr, d['inputs'], vec)[:-1] + [1]     # the inputs of the edge that is aborted
        if len(parts) == 1 and stop_at is None and fr.random() < 0.08:
            # re-entry: a listener advances the simulation by k more cycles from inside its callback, once
            steps[-1]['nest'] = [fr.randint(1, n), fr.choice([1, 1, 2])]
        pk = [nd for nd in d['nodes'] if nd['kind'] == 'ParamScaler']
        if pk and fr.random() < 0.3:
            # the parameter is re-assigned at the top of the block between clk() calls (after it has been read)
            steps[-1]['param'] = [fr.choice(pk)['id'], fr.choice([0, 1, 3, 7, 100])]
    if bulk:
        return {'design': None, 'order': None, 'bulk': bulk, 'steps': steps[:5]}     # regenerated from (n, w, seed) when executed
    return {'design': d, 'order': order, 'steps': steps}


def swap_ring_design(rng):
    """registers exchanging values: r1<=r2; r2<=r1 pairs and rings of length 3..8 with optional
    enable, plus a counter feeding one ring position through a mux"""
    w = rng.choice([1, 4, 8, 16])
    L = rng.choice([2, 2, 3, 5, 8])
    inputs = [{'name': 'i0', 'w': w}, {'name': 'i1', 'w': 1}, {'name': 'i2', 'w': 1}]
    nodes = []
    # node 0: mux(load, ring_last, i0)  ; nodes 1..L: regs in a ring
    nodes.append({'id': 0, 'kind': 'Mux2', 'p': {}, 'ins': ['i1', 'n%d.0' % L, 'i0'], 'ow': [w], 'grp': []})
    for i in range(1, L + 1):
        src = 'n%d.0' % (i - 1)
        en = rng.random() < 0.3
        nodes.append({'id': i, 'kind': 'Reg', 'p': {'en': en, 'rs': False, 'rv': 0},
                      'ins': [src] + (['i2'] if en else []), 'ow': [w], 'grp': []})
    return {'inputs': inputs, 'nodes': nodes, 'outputs': ['n%d.0' % L], 'order': list(range(L + 1)), 'ring': L}


class Stopper:
    def __init__(self, sim):
        self.sim = sim
        self.count = 0
        self.at = None

    def simulatorUpdated(self):
        self.count += 1
        if self.at is not None and self.count == self.at:
            self.sim.stop()
        if getattr(self, 'nest_at', None) is not None and self.count == self.nest_at:
            k, self.nest_at = self.nest_k, None
            with quiet():
                self.sim.clk(k)         # the listener advances the run itself; its own callbacks during that call only count


def leaf_state(obj):
    out = {}
    for k, v in vars(obj).items():
        if k in ('name',) or k.startswith('_'):
            continue
        if type(v) is int:
            out[k] = v
        elif isinstance(v, list) and v and all(type(x) is int for x in v):
            out[k] = tuple(v)
    return out


def compare_states(real, twin, step, where):
    for nid, o in real.objs.items():
        t = twin.b.objs[nid]
        rl = [l for l in o.allLeaves() if l.isClockable()]
        tl = [l for l in t.allLeaves() if l.isClockable()]
        tmap = {l.getFullPath(): l for l in tl}
        for l in rl:
            m = tmap.get(l.getFullPath())
            if m is None:
                continue
            a, b2 = leaf_state(l), leaf_state(m)
            if a != b2:
                raise Violation('state-mismatch', 'state:%s' % type(l).__name__, step,
                                '%s leaf %s state %s, twin %s' % (where, l.getFullPath(), a, b2))


def run(scn, log, st):
    if scn.get('bulk'):
        d, order = netlist.bulk_ring(*scn['bulk'])
        scn = dict(scn, design=d, order=order)
        st.probe('ring_of_thousands')
    d = copy.deepcopy(scn['design'])        # parameter updates are applied to a private copy
    if d.get('deepened'):
        st.probe('deep_hierarchy')
    log.add('design', h64(repr(sorted((n['id'], n['kind'], tuple(n['ins'])) for n in d['nodes']))), 'order', h64(scn['order']))
    kinds = [n['kind'] for n in d['nodes']]
    if d.get('ring'):
        st.probe('swap_pair' if d['ring'] == 2 else 'ring')
    if 'SynchronousMemory' in kinds:
        st.probe('memory')
    if any('transpiled' in KINDS[k].tags or k == 'MsgSequencer' for k in kinds):
        st.probe('fsm_block')
    if d.get('group_driver'):
        st.probe('multi_driver')
    if 'SimPeek' in kinds:
        st.probe('simulator_fetched_in_clock')
    b = netlist.Built(d).build(scn['order'])
    pads = []
    for j, bd in enumerate(d.get('bidir', [])):
        # a bidirectional wire driven by a sequential block: its prepared updates take part in the same atomic edge
        bw = b.hw.bidir_wire('pad%d' % j, bd['w'])
        py4hw.Sequence(b.hw, 'padseq%d' % j, list(bd['values']), bw)
        pads.append((bw, bd))
        st.probe('bidir_sequential')
    with quiet():
        sim = b.hw.getSimulator()
    twin = netlist.Twin(d)
    ref = netlist.RefModel(d)
    ref.settle()
    stopper = Stopper(sim)
    sim.addListener(stopper)
    for si, step in enumerate(scn['steps'], 1):
        rng = random.Random(step['pseed'])
        for f in step['faults']:
            if f == 'resort':
                with quiet():
                    sim = b.hw.getSimulator()
                st.fault('resort')
            elif f == 'sim_restart':
                with quiet():
                    sim = seams.restart_simulator(b.hw, st)
                stopper.sim = sim
        if step.get('param'):
            nid, v = step['param']
            nd = next((x for x in d['nodes'] if x['id'] == nid), None)
            if nd is not None and nid in b.objs:
                b.objs[nid].addParameter('STEP', v)
                twin.b.objs[nid].addParameter('STEP', v)
                nd['p'] = dict(nd['p'], step=v)
                st.fault('param_update')
                st.probe('parameter_reassigned_after_read')
        sh = seams.EdgeShuffler(sim, rng, st)
        after_abort = False
        if step.get('throw') and any(n_['kind'] == 'Thrower' for n_ in d['nodes']):
            b.set_inputs(step['throw'])
            try:
                with quiet():
                    sim.clk(1)
            except RuntimeError:
                st.fault('edge_aborted_by_exception')
                st.probe('edge_aborted_by_exception')
                after_abort = True      # some blocks were clocked, nothing was settled: the edge does not count
                # what the caller sees when it catches the exception: the netlist settled for the inputs of that edge, no
                # register output changed
                twin.set_inputs(step['throw'])
                twin.settle()
                netlist.compare(b, twin.values(), si, 'right after the exception of the aborted edge in step %d' % si, sigprefix='twin-mismatch:aborted')
        b.set_inputs(step['vec'])
        twin.set_inputs(step['vec'])
        ref.set_inputs(step['vec'])
        twin.settle()
        ref.settle()
        n = step['n']
        parts = list(step['parts'])
        if len(parts) > 1:
            st.fault('split_clk')
            st.probe('split_clk')
        done = 0
        pend_stop = step.get('stop_at')
        guard = 0
        while parts:
            guard += 1
            if guard > 100:
                raise Violation('no-progress', 'clk-no-progress', si, 'clk() calls make no progress')
            k = parts.pop(0)
            if k <= 0:
                continue
            before = sim.total_clks
            sblk = b.objs.get(step.get('stop_from')) if step.get('stop_from') is not None else None
            if pend_stop is not None and done < pend_stop <= done + k and sblk is not None:
                sblk._at = sblk.edges + (pend_stop - done)
                expect = pend_stop - done
                pend_stop = None
                st.fault('stop_cancel')
                st.probe('stop_from_clock_method')
                stopper.at = None
            elif pend_stop is not None and done < pend_stop <= done + k:
                stopper.at = stopper.count + (pend_stop - done)
                expect = pend_stop - done
                pend_stop = None
                st.fault('stop_cancel')
                st.probe('stop_cancel')
            else:
                stopper.at = None
                expect = k
            extra = 0
            if step.get('nest') and pend_stop is None and len(step['parts']) == 1:
                stopper.nest_at, stopper.nest_k = stopper.count + step['nest'][0], step['nest'][1]
                extra = step['nest'][1]
                expect += extra
                st.fault('nested_clk')
                st.probe('clk_from_inside_listener')
            with quiet() as buf:
                sim.clk(k)
            if 'already prepared' in buf.getvalue() and not after_abort:
                raise Violation('double-prepare', 'double-prepare', si, buf.getvalue()[:300])
            after_abort = False
            ran = sim.total_clks - before
            if ran != expect:
                raise Violation('cycle-count', 'total_clks', si, 'clk(%d) with stop after %d advanced total_clks by %d' % (k, expect, ran))
            done += ran
            if extra:
                n += extra
                done -= extra
            elif ran < k:
                parts.insert(0, k - ran)     # resume what the cancellation cut off
            seams.check_prepared_empty('after clk call in step %d' % si, si)
        for _ in range(n):
            twin.edge()
            ref.edge()
        st.cycles += n
        if st.faults.get('perm_clockables', 0) or st.faults.get('perm_drivers', 0):
            st.nontrivial = True
        where = 'after %d cycles of step %d' % (n, si)
        netlist.compare(b, twin.values(), si, where, sigprefix='twin-mismatch')
        compare_states(b, twin, si, where)
        netlist.compare(b, ref.vals, si, where, sigprefix='ref-mismatch')
        seams.check_wire_ranges(b.hw, where, si)
        for bw, bd in pads:
            exp = bd['values'][(st.cycles - 1) % len(bd['values'])] & ((1 << bd['w']) - 1)
            if bw.get() != exp:
                raise Violation('lost-update', 'bidir:lost-update', si, '%s: bidirectional wire %s holds %#x after %d edges, its sequence gives %#x' % (
                    where, bw.name, bw.get(), st.cycles, exp))
        st.state(*[repr(ref.state[nid]) for nid in sorted(ref.state) if ref.state[nid] is not None][:6])
        log.add('step', si, h64(sorted((r, w.get()) for r, w in b.wires.items())))


def shrink(scn):
    yield from shrink_list(scn, 'steps', 1)
    # simplify each step: one call, no stop, no faults, fewer cycles
    for i, s in enumerate(scn['steps']):
        if len(s['parts']) > 1 or s['stop_at'] is not None or s['faults']:
            c = dict(scn)
            c['steps'] = list(scn['steps'])
            c['steps'][i] = dict(s, parts=[s['n']], stop_at=None, faults=[])
            yield c
        if s['n'] > 1:
            c = dict(scn)
            c['steps'] = list(scn['steps'])
            c['steps'][i] = dict(s, n=1, parts=[1], stop_at=None)
            yield c
    if scn.get('bulk'):
        nb, w, sd = scn['bulk']
        for m in (nb // 2, nb * 3 // 4, nb - 50, nb - 1):
            if 2 <= m < nb:
                yield dict(scn, bulk=[m, w, sd])
        return
    d = scn['design']
    ids = [n['id'] for n in d['nodes']]
    if len(ids) > 1 and not d.get('ring'):
        chunk = len(ids) // 2
        while chunk >= 1:
            for i in range(0, len(ids), chunk):
                keep = ids[:i] + ids[i + chunk:]
                if not keep:
                    continue
                try:
                    nd = netlist.prune(d, keep)
                    netlist.RefModel(nd)
                except Exception:
                    continue
                c = dict(scn)
                c['design'] = nd
                ks = set(keep)
                c['order'] = [x for x in scn['order'] if x in ks]
                yield c
            chunk //= 2
    if d.get('group_driver'):
        c = dict(scn)
        c['design'] = dict(d)
        c['design'].pop('group_driver')
        yield c
    canon = sorted(scn['order'])
    if scn['order'] != canon:
        c = dict(scn)
        c['order'] = canon
        yield c

"""C17 - the UART link delivers every byte once, unchanged and in order.

Real: UARTSerializer -> line -> ClockGenerationAndRecovery + UARTDeserializer.
Fakes: byte producer (standard ready/valid: holds VALID and the byte until accepted), consumer
with seeded READY, an independent software 8N1 receiver run over the recorded line.
Scheduler/faults: gap (0 .. 3 frames of idle between bytes), burst (back-to-back), phase (first
offer at a seeded divider phase), bounded consumer stall (a UART has no flow control: READY is
never low for more than 3 bit times in a row), divider ratio 4..64 clocks per bit (for odd
ratios the block itself announces that the real period is 2*floor(r/2); the software receiver
uses that period), visit order of all sequential leaves re-drawn before every edge.
"""
import random

import py4hw
from py4hw.logic.protocol.uart.serdes import UARTSerializer, UARTDeserializer
from py4hw.logic.protocol.uart.clock import ClockGenerationAndRecovery

from ..core import Violation, shrink_list, h64
from .. import seams
from ..seams import quiet

PROP = 'C17'
TIERS = {'quick': 1800, 'thorough': 50000}
RULE = ('each run: one link at a seeded ratio of 4-64 system clocks per bit, 1-14 bytes (boundary values 0x00 0xFF 0x55 '
        '0xAA 0x01 0x80 and random) offered with seeded gaps / back-to-back, consumer READY seeded with bounded stalls; '
        'non-trivial = >= 2 bytes delivered and at least one of: back-to-back pair, consumer stall while a byte was '
        'waiting, non-zero start phase; distinct = distinct run digests')
REAL = ['UARTSerializer', 'UARTDeserializer', 'ClockGenerationAndRecovery (ClockDivider x2, EdgeDetector x3, ClockSyncFSM)', 'py4hw simulator']
STUB = ['byte producer', 'byte consumer', 'software 8N1 receiver (oracle)']
ASSUMPTIONS = ['consumer READY is never low for more than 3 bit times in a row (no flow control on a UART)',
               'bit period = 2*floor(ratio/2) system clocks, as the divider itself reports for odd ratios']
PROBES = ['second_idle_receiver', 'slow_link', 'clock_block_in_own_domain', 'deserializer_added_late_in_subblock', 'data_bus_not_8_bits', 'back_to_back', 'gap', 'phase', 'consumer_stall_while_waiting', 'odd_ratio', 'min_ratio', 'boundary_byte']


def gen(rs, tier, index):
    rng = rs.get('design')
    ratio = rng.choice([4, 4, 5, 6, 7, 8, 10, 16, 25, 33, 64, rng.randint(4, 64)])
    if rng.random() < 0.03:
        ratio = rng.choice([434, 434, 500, 868])      # slow links (434 = 50 MHz / 115200 baud, the library's own HIL configuration)
    if rng.random() < 0.006:
        ratio = rng.choice([2604, 5208, 7500, 10416])     # 9600 baud on a 25 / 50 / 72 / 100 MHz clock: tens of thousands of clocks per frame
    nbytes = rng.randint(1, 8) if (tier == 'quick' or ratio > 32) else rng.randint(1, 14)
    if ratio > 64:
        nbytes = rng.randint(1, 3)
    if ratio > 1000:
        nbytes = 2
    P = 2 * (ratio // 2)
    data = []
    for _ in range(nbytes):
        b = rng.choice([0x00, 0xFF, 0x55, 0xAA, 0x01, 0x80, 0x7F, 0xFE]) if rng.random() < 0.4 else rng.getrandbits(8)
        gap = 0 if rng.random() < 0.5 else rng.randint(1, 30 * P)
        data.append({'b': b, 'gap': gap})
    # width of the producer's data bus on the serializer's v port: not always 8 (7-bit ASCII source; a word bus that
    # carries the byte in its low bits, upper bits zero)
    vw = rng.choice([8, 8, 8, 7, 12, 32])
    if vw < 8:
        for x in data:
            x['b'] &= (1 << vw) - 1
    if ratio > 64:
        for x in data:
            x['gap'] = min(x['gap'], 2 * P)
    lr = rs.get('layout')
    # layout: where the blocks live - all under the system; the deserializer instantiated inside an existing nested block
    # after the simulator was fetched; the clock block in a board block with a clock driver of its own (same clock)
    # second_link: another, idle receiver (its own line, held at the idle level, its own clock block) in the same system
    return {'second_link': lr.random() < 0.25,
            'layout': lr.choice(['flat', 'flat', 'flat', 'late_nested_des', 'clk_own_driver']), 'vw': vw, 'ratio': ratio, 'bytes': data, 'phase': rng.randint(0, 3 * P), 'p_ready': rng.choice([1.0, 0.9, 0.5, 0.2]),
            'cons_seed': rs.sub('cons'), 'perm_seed': rs.sub('perm')}


class _Box(py4hw.Logic):
    pass


def soft_uart_rx(line, P):
    """independent 8N1 receiver over the recorded line (one sample per system clock):
    wait for a falling edge, sample mid-bit at the nominal period"""
    out = []
    t = 1
    n = len(line)
    while t < n:
        if line[t - 1] == 1 and line[t] == 0:
            mid = t + P // 2
            if mid >= n:
                break
            if line[mid] != 0:
                t += 1          # glitch, not a start bit
                continue
            v = 0
            ok = True
            for k in range(8):
                s = mid + (k + 1) * P
                if s >= n:
                    ok = False
                    break
                v |= line[s] << k
            s = mid + 9 * P
            if not ok or s >= n:
                break
            if line[s] != 1:
                out.append(('framing', t))
            else:
                out.append((v, t))
            t = s
        else:
            t += 1
    return out


def run(scn, log, st):
    ratio = scn['ratio']
    P = 2 * (ratio // 2)
    if ratio % 2:
        st.probe('odd_ratio')
    if ratio == 4:
        st.probe('min_ratio')
    hw = py4hw.HWSystem()
    s_ready, s_valid, s_v = hw.wire('s_ready'), hw.wire('s_valid'), hw.wire('s_v', scn.get('vw', 8))
    if scn.get('vw', 8) != 8:
        st.probe('data_bus_not_8_bits')
    tx = hw.wire('tx')
    tx_pulse, rx_sample, desync = hw.wire('tx_clk_pulse'), hw.wire('rx_sample'), hw.wire('desync')
    d_ready, d_valid, d_v = hw.wire('d_ready'), hw.wire('d_valid'), hw.wire('d_v', 8)
    layout = scn.get('layout', 'flat')
    with quiet():
        cpar = hw
        if layout == 'clk_own_driver':
            cpar = _Box(hw, 'board')
            cpar.clockDriver = py4hw.ClockDriver('board_clk', base=hw.clockDriver)
            st.probe('clock_block_in_own_domain')
        UARTSerializer(hw, 'ser', s_ready, s_valid, s_v, tx_pulse, tx)
        if layout == 'late_nested_des':
            dpar = _Box(_Box(hw, 'rx'), 'inner')
            t_ = dpar.wire('tie')
            py4hw.Constant(dpar, 'tie', 0, t_)
            py4hw.Buf(dpar, 'keep', t_, dpar.wire('kept'))
            ClockGenerationAndRecovery(cpar, 'clkgen', tx, desync, tx_pulse, rx_sample, ratio * 1000, 1000)
            hw.getSimulator()
            UARTDeserializer(dpar, 'des', tx, rx_sample, d_ready, d_valid, d_v, desync)
            st.probe('deserializer_added_late_in_subblock')
            st.fault('late_add')
        else:
            ClockGenerationAndRecovery(cpar, 'clkgen', tx, desync, tx_pulse, rx_sample, ratio * 1000, 1000)
            UARTDeserializer(hw, 'des', tx, rx_sample, d_ready, d_valid, d_v, desync)
        v2 = None
        if scn.get('second_link'):
            tx2, txp2, rxs2, des2 = hw.wire('tx2'), hw.wire('tx_clk_pulse2'), hw.wire('rx_sample2'), hw.wire('desync2')
            r2, v2, d2 = hw.wire('d_ready2'), hw.wire('d_valid2'), hw.wire('d_v2', 8)
            py4hw.Constant(hw, 'idle_line', 1, tx2)
            py4hw.Constant(hw, 'ready2', 1, r2)
            ClockGenerationAndRecovery(hw, 'clkgen2', tx2, des2, txp2, rxs2, ratio * 1000, 1000)
            UARTDeserializer(hw, 'des2', tx2, rxs2, r2, v2, d2, des2)
            st.probe('second_idle_receiver')
        sim = hw.getSimulator()
    if ratio > 64:
        st.probe('slow_link')
    if ratio > 1000:
        st.probe('frame_longer_than_16_bit_counter' if ratio * 10 > 65535 else 'very_slow_link')
    seams.EdgeShuffler(sim, random.Random(scn['perm_seed']), st)
    crng = random.Random(scn['cons_seed'])
    todo = list(scn['bytes'])
    accepted, presented, line = [], [], []
    wait = scn['phase']
    if wait:
        st.probe('phase')
        st.fault('phase')
    offering = None
    low_run = 0
    t = 0
    last_accept_t = None
    limit = scn['phase'] + sum(x['gap'] for x in todo) + (len(todo) + 2) * 14 * P + 200
    maxlow = 3 * P
    while t < limit:
        # producer
        if offering is None and todo:
            if wait > 0:
                wait -= 1
            else:
                offering = todo.pop(0)
        s_valid.put(1 if offering is not None else 0)
        s_v.put(offering['b'] if offering is not None else 0)
        # consumer: seeded READY, never low for more than maxlow cycles in a row
        r = 1 if (crng.random() < scn['p_ready'] or low_run >= maxlow) else 0
        low_run = 0 if r else low_run + 1
        d_ready.put(r)
        sim.propagateAll()
        line.append(tx.get())
        if offering is not None and s_ready.get():
            accepted.append((offering['b'], t))
            if offering['b'] in (0, 0xFF, 0x55, 0xAA, 0x01, 0x80):
                st.probe('boundary_byte')
            if last_accept_t is not None and offering['gap'] == 0:
                st.probe('back_to_back')
                st.fault('burst')
            last_accept_t = t
            offering = None
            if todo:
                wait = todo[0]['gap']
                if wait:
                    st.probe('gap')
                    st.fault('gap')
        if d_valid.get() and r:
            presented.append((d_v.get(), t))
        if v2 is not None and v2.get():
            raise Violation('uart', 'uart:spurious', t, 'the second receiver, whose line idles, presented a byte at cycle %d' % t)
        if not r and len(accepted) > len(presented):
            st.probe('consumer_stall_while_waiting')
            st.fault('stall')
        with quiet():
            sim.clk(1)
        t += 1
        st.cycles += 1
        if not todo and offering is None and len(presented) >= len(accepted) and t > (accepted[-1][1] if accepted else 0) + 12 * P:
            break
    seams.check_prepared_empty('end', t)
    seams.check_wire_ranges(hw, 'end', t)
    log.add('ratio', ratio, 'accepted', [a[0] for a in accepted], 'presented', [p[0] for p in presented], h64(line))
    sent = [x['b'] for x in scn['bytes']]
    if [a[0] for a in accepted] != sent:
        raise Violation('uart', 'uart:not-accepted', len(accepted), 'serializer accepted %s of offered %s within %d cycles' % (
            [hex(a[0]) for a in accepted], [hex(b) for b in sent], t))
    got = [p[0] for p in presented]
    if got != sent:
        cls = 'lost' if len(got) < len(sent) else ('duplicated' if len(got) > len(sent) else 'corrupted')
        if len(got) == len(sent) and sorted(got) == sorted(sent):
            cls = 'reordered'
        raise Violation('uart', 'uart:%s' % cls, len(got), 'ratio %d: sent %s, deserializer presented %s' % (
            ratio, [hex(b) for b in sent], [hex(b) for b in got]))
    for (b, ta), (_, tp) in zip(accepted, presented):
        if tp - ta > 13 * P + 2 * maxlow + 8:
            raise Violation('uart', 'uart:late', ta, 'byte %#x accepted at %d presented at %d (bit period %d)' % (b, ta, tp, P))
    sw = soft_uart_rx(line, P)
    swv = [x[0] for x in sw]
    if swv != sent:
        raise Violation('uart', 'uart:line-not-8n1', len(swv), 'ratio %d: software 8N1 receiver at period %d recovered %s from the line, sent %s' % (
            ratio, P, [hex(x) if isinstance(x, int) else x for x in swv], [hex(b) for b in sent]))
    if len(sent) >= 2 and (st.probes.get('back_to_back') or st.probes.get('consumer_stall_while_waiting') or st.probes.get('phase')):
        st.nontrivial = True


def shrink(scn):
    yield from shrink_list(scn, 'bytes', 1)
    if scn.get('vw', 8) > 8:
        yield dict(scn, vw=8)
    if scn.get('layout', 'flat') != 'flat':
        yield dict(scn, layout='flat')
    if scn.get('second_link'):
        yield dict(scn, second_link=False)
    if scn['phase']:
        yield dict(scn, phase=0)
    if scn['p_ready'] != 1.0:
        yield dict(scn, p_ready=1.0)
    if any(x['gap'] for x in scn['bytes']):
        yield dict(scn, bytes=[dict(x, gap=0) for x in scn['bytes']])

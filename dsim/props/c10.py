"""C10 - a clock domain advances exactly when its enable is active.

Scheduler decides: where clock drivers sit in the hierarchy (children inherit the nearest
ancestor's), the enable history of every domain (stimulus, registers of other domains,
registers inside the gated domain itself, enable wires 1-3 bits wide), drivers placed on a block only after the
simulator exists and has run (regate: no circuit added, then hw.getSimulator()), the visit order of
drivers and clockables before every edge, re-sorts.  Faults: gate_stall (long and
single-cycle), regate, perm_drivers, perm_clockables, resort.
Oracles: (1) stutter-equivalence / non-interference: every wire equals (a) the pure-Python
reference in which a node takes an edge iff its nearest driver's enable was non-zero before
the edge, and (b) a twin of real blocks whose clock() the harness calls under the same rule;
(2) hold: no output of a block in a disabled domain changes across that edge.
"""
import copy
import random

import py4hw
import py4hw.simulation

from ..core import Violation, shrink_list, h64
from .. import seams, netlist
from ..catalog import KINDS, kinds_with
from ..seams import quiet

PROP = 'C10'
TIERS = {'quick': 4500, 'thorough': 120000}
RULE = ('each run: a seeded hierarchy (depth 1-3) of modelled sequential blocks with 1-4 clock drivers placed on '
        'groups at seeded levels, enables from primary inputs, from registers of other domains and from inside the '
        'gated domain; 20-120 cycles; non-trivial = some domain saw both an enabled and a disabled edge while it '
        'contained a sequential block; distinct = distinct run digests; distinct_schedules = distinct '
        '(driver order, clockables order) tuples used')
REAL = ['py4hw.simulation.Simulator._clk_cycle (enable test, per-driver clockAll)', 'py4hw.base.getObjectClockDriver / ClockDriver',
        'py4hw.logic.clock.GatedClock', 'sequential library blocks']
STUB = ['stimulus']
ASSUMPTIONS = ['reference models of dsim/catalog.py']
PROBES = ['enable_is_also_the_clock_wire', 'domain_far_below_its_driver', 'shared_driver_object', 'simulator_refetched_by_listener', 'edge_aborted_before_anything_was_clocked', 'refetched_through_constructor', 'caller_supplied_top_driver', 'regated_after_run', 'driver_on_block', 'top_driver_gated', 'enable_attached_late', 'disabled_edge', 'enabled_edge', 'self_gated', 'cross_domain_enable', 'wide_enable', 'nested_driver', 'gatedclock_idiom', 'single_cycle_stall', 'long_stall']


def gen(rs, tier, index):
    rng = rs.get('design')
    comb = [KINDS[k] for k in ('And2', 'Or2', 'Xor2', 'Not', 'Mux2', 'Add', 'Sub', 'Equal', 'Buf', 'Constant')]
    seqk = [k for k in kinds_with(seq=True) if k.name != 'DualPortSynchronousMemory']   # write-conflict outputs are unspecified, unusable as enables
    n = rng.choice([5, 8, 14]) if tier == 'quick' else rng.choice([8, 16, 30])
    d = netlist.gen_design(rng, n, comb, hier_depth=rng.choice([1, 2, 3]), feedback=rng.choice([0.1, 0.3]),
                           seq_kinds=seqk, seq_frac=rng.choice([0.5, 0.7]), maxw=33)
    sigw = netlist.sig_widths(d)
    groups = sorted({'/'.join(nd['grp'][:k]) for nd in d['nodes'] for k in range(1, len(nd['grp']) + 1)})
    rng.shuffle(groups)
    gd = {}
    moore = [nd for nd in d['nodes'] if KINDS[nd['kind']].seq and not KINDS[nd['kind']].mealy]
    for g in groups[:rng.randint(1, 4)]:
        mode = rng.choice(['input', 'input', 'reg', 'self', 'none'])
        en = None
        if mode == 'input':
            w = rng.choice([1, 1, 1, 2, 3])
            nm = 'i%d' % len(d['inputs'])
            d['inputs'].append({'name': nm, 'w': w, 'role': 'enable'})
            en = nm
        elif mode in ('reg', 'self'):
            inside = lambda nd: '/'.join(nd['grp']).startswith(g)
            c = [('n%d.%d' % (nd['id'], k)) for nd in moore for k, w in enumerate(nd['ow'])
                 if w <= 3 and (inside(nd) if mode == 'self' else not inside(nd))]
            if c:
                en = rng.choice(c)
        # the same gated sub-block instantiated twice gives two drivers with one name: names are not unique
        gd[g] = {'name': rng.choice(['gclk', 'clk_' + g.replace('/', '_')]), 'en': en,
                 'idiom': 'gatedclock' if (en and rng.random() < 0.3) else 'enable', 'mode': mode if en else 'none'}
    # one driver object on two groups: the second group gets the very same object (same enable) instead of one of its own
    gk = [g for g in sorted(gd) if gd[g]['en'] and gd[g]['idiom'] == 'enable']
    if gk and len(groups) > len(gd) and rng.random() < 0.3:
        g0 = rng.choice(gk)
        g1 = rng.choice([g for g in groups if g not in gd])
        gd[g0] = dict(gd[g0], share=g0)
        gd[g1] = dict(gd[g0])
    d['group_driver'] = gd
    if gd and rng.random() < 0.08:
        # the blocks of one clock domain nested far below the block that carries the driver
        netlist.deepen(d, rng, rng.choice([12, 15, 16, 17, 24, 33, 48]), under=rng.choice(sorted(gd)).split('/'))
    # drivers placed directly on blocks (structural library blocks and clockable leaves such as Reg)
    nd = {}
    for n2 in d['nodes']:
        if KINDS[n2['kind']].seq and rng.random() < 0.12:
            w = rng.choice([1, 1, 2])
            nm = 'i%d' % len(d['inputs'])
            d['inputs'].append({'name': nm, 'w': w, 'role': 'enable'})
            nd[str(n2['id'])] = {'name': 'clk_n%d' % n2['id'], 'en': nm, 'idiom': rng.choice(['enable', 'late_enable']), 'mode': 'input'}
    if nd:
        d['node_driver'] = nd
    for g in gd:
        if gd[g]['en'] and gd[g]['idiom'] == 'enable' and rng.random() < 0.25:
            gd[g]['idiom'] = 'late_enable'
        elif gd[g]['en'] and gd[g]['idiom'] == 'enable' and gd[g].get('share') is None and rng.random() < 0.2:
            gd[g]['idiom'] = 'clock_wire'
    if rng.random() < 0.15:
        nm = 'i%d' % len(d['inputs'])
        d['inputs'].append({'name': nm, 'w': 1, 'role': 'enable'})
        d['top_enable'] = nm              # the top-level driver gated through an enable attached after construction
        d['own_top_driver'] = rng.random() < 0.4      # ... of a driver object the caller passed to HWSystem(clock_driver=)
    order = list(d['order'])
    if rng.random() < 0.5:
        rng.shuffle(order)
    # regate: one driver is only placed after the simulator exists and has run (no circuit is added, the block just
    # moves to another domain), followed by hw.getSimulator()
    rg = rs.get('regate')
    cand = [('node:%s' % k, v) for k, v in sorted(nd.items())] + [(g, v) for g, v in sorted(gd.items()) if v['mode'] == 'input' and v['idiom'] != 'gatedclock']
    if cand and rg.random() < 0.3:
        key, dv = rg.choice(cand)
        if key.startswith('node:'):
            del nd[key[5:]]
            if not nd:
                d.pop('node_driver', None)
        else:
            del gd[key]
        d['regate'] = {'key': key, 'drv': dict(dv, idiom='enable'), 'at': rg.randint(1, 6)}
    sr = rs.get('stimulus')
    fr = rs.get('faults')
    ncyc = sr.choice([20, 40, 80]) if tier == 'quick' else sr.choice([40, 120])
    hold = [sr.choice([0.0, 0.5, 0.9]) for _ in d['inputs']]
    # enable inputs follow a stall pattern: mostly on, seeded long and single-cycle stalls
    cur = [0] * len(d['inputs'])
    stall = [0] * len(d['inputs'])
    steps = []
    c = 0
    si = 0
    while c < ncyc:
        for j, i in enumerate(d['inputs']):
            if i.get('role') == 'enable':
                if stall[j] > 0:
                    stall[j] -= 1
                    cur[j] = 0
                else:
                    r = fr.random()
                    if r < 0.08:
                        stall[j] = fr.randint(3, 15) - 1
                        cur[j] = 0
                    elif r < 0.2:
                        cur[j] = 0
                    else:
                        cur[j] = fr.randint(1, (1 << i['w']) - 1)
            elif sr.random() >= hold[j]:
                cur[j] = netlist.gen_vector(sr, [i])[0]
        nn = 1 if fr.random() < 0.8 else fr.randint(2, 5)
        steps.append({'vec': list(cur), 'n': nn, 'resort': fr.choice(['get', 'ctor']) if fr.random() < 0.07 else False,
                      'pseed': rs.sub('p%d' % si)})
        c += nn
        si += 1
    scn = {'design': d, 'order': order, 'steps': steps}
    # a listener that asks for the simulator at every callback (a monitor doing hw.getSimulator() during clk(n))
    scn['refresher'] = fr.random() < 0.2
    if fr.random() < 0.12 and not d.get('regate'):
        # a checker block whose clock() raises on demand; it is visited before everything else, so the aborted edge has
        # prepared nothing and changed no state: the caller catches the exception and goes on
        nm = 'i%d' % len(d['inputs'])
        d['inputs'].append({'name': nm, 'w': 1, 'role': 'throw'})
        nid = max(n_['id'] for n_ in d['nodes']) + 1
        d['nodes'].append({'id': nid, 'kind': 'Thrower', 'p': {}, 'ins': [nm], 'ow': [1], 'grp': []})
        d['outputs'].append('n%d.0' % nid)
        d['order'].append(nid)
        scn['order'] = order + [nid]
        for stp in steps:
            stp['vec'] = stp['vec'] + [0]
            if fr.random() < 0.3:
                tv = list(stp['vec'])
                for j, i in enumerate(d['inputs']):
                    if i.get('role') == 'enable':
                        tv[j] = fr.randint(0, (1 << i['w']) - 1)
                    if i['name'] == d.get('top_enable'):
                        tv[j] = 1               # the checker lives in the top-level domain: that one runs at the aborted edge
                tv[-1] = 1
                stp['throw'] = tv
        scn['thrower'] = nid
    return scn


def run(scn, log, st):
    d = copy.deepcopy(scn['design'])
    regate = d.pop('regate', None)
    gd = d['group_driver']
    log.add('design', h64(repr(sorted((n['id'], n['kind'], tuple(n['ins']), tuple(n['grp'])) for n in d['nodes']))), repr(sorted(gd.items())))
    for g, dv in list(gd.items()):
        if dv['mode'] == 'self':
            st.probe('self_gated')
        if dv['mode'] == 'reg':
            st.probe('cross_domain_enable')
        if dv['idiom'] == 'gatedclock':
            st.probe('gatedclock_idiom')
        if dv['idiom'] == 'clock_wire':
            st.probe('enable_is_also_the_clock_wire')
        if any(h != g and g.startswith(h + '/') for h in gd):
            st.probe('nested_driver')
        if dv.get('share') is not None and g != dv['share']:
            st.probe('shared_driver_object')
    if d.get('deepened'):
        st.probe('domain_far_below_its_driver')
    b = netlist.Built(d).build(scn['order'])
    with quiet():
        sim = b.hw.getSimulator()
    twin = netlist.Twin(d)
    ref = netlist.RefModel(d)
    ref.settle()
    seqnodes = [n for n in d['nodes'] if KINDS[n['kind']].seq]
    dom_has_seq = {netlist.node_domain(d, n) for n in seqnodes}
    gd = dict(gd)
    for nid2, dv in (d.get('node_driver') or {}).items():
        gd['node:%s' % nid2] = dv
        st.probe('driver_on_block')
    if d.get('top_enable'):
        gd[''] = {'en': d['top_enable'], 'mode': 'input', 'idiom': 'late_enable'}
        st.probe('top_driver_gated')
        if d.get('own_top_driver'):
            st.probe('caller_supplied_top_driver')
    if any(dv.get('idiom') == 'late_enable' for dv in gd.values()):
        st.probe('enable_attached_late')
    seen_en, seen_dis = set(), set()
    run_len = {}
    if scn.get('refresher'):
        class _Refresher:
            def simulatorUpdated(self_):
                with quiet():
                    b.hw.getSimulator()
        sim.addListener(_Refresher())
        st.probe('simulator_refetched_by_listener')
    thrower = b.objs.get(scn.get('thrower')) if scn.get('thrower') is not None else None
    for si, step in enumerate(scn['steps'], 1):
        rng = random.Random(step['pseed'])
        if regate is not None and si == min(regate['at'], len(scn['steps'])):
            key, dv = regate['key'], regate['drv']
            if key.startswith('node:'):
                tgt = b.objs[int(key[5:])]
                d.setdefault('node_driver', {})[key[5:]] = dv
            else:
                tgt = b.groups[tuple(key.split('/'))]
                d['group_driver'][key] = dv
            b._attach_driver(tgt, dv)
            with quiet():
                sim = b.hw.getSimulator()
            gd[key] = dv
            dom_has_seq = {netlist.node_domain(d, n) for n in seqnodes}
            st.probe('regated_after_run')
            st.fault('regate')
            regate = None
        if step['resort']:
            with quiet():
                if step['resort'] == 'ctor':
                    # the simulator of a system that already has one, asked for through the public constructor
                    sim = py4hw.simulation.Simulator(b.hw)
                    st.probe('refetched_through_constructor')
                else:
                    sim = b.hw.getSimulator()
            st.fault('resort')
        seams.EdgeShuffler(sim, rng, st, first=thrower)
        if step.get('throw') and thrower is not None:
            for x in (b, twin, ref):
                x.set_inputs(step['throw'])
            try:
                with quiet():
                    sim.clk(1)
            except RuntimeError:
                st.fault('edge_aborted_by_exception')
                st.probe('edge_aborted_before_anything_was_clocked')
        vec = step['vec']
        for x in (b, twin, ref):
            x.set_inputs(vec)
        twin.settle()
        ref.settle()
        for i, v in zip(d['inputs'], vec):
            if i.get('role') == 'enable' and i['w'] > 1 and v > 1:
                st.probe('wide_enable')
        n = step['n']
        pre = None
        if n == 1:
            sim.propagateAll()
            pre = {r: w.get() for r, w in b.wires.items()}
            en_real = netlist.enabled_nodes(d, lambda r: b.wires[r].get())
        with quiet():
            sim.clk(n)
        for _ in range(n):
            en = netlist.enabled_nodes(d, ref.vals.get)
            for g, dv in gd.items():
                if g in dom_has_seq and dv.get('en') is not None:
                    if ref.vals[dv['en']] != 0:
                        seen_en.add(g)
                        st.probe('enabled_edge')
                        if run_len.get(g, 0) == 1:
                            st.probe('single_cycle_stall')
                        run_len[g] = 0
                    else:
                        seen_dis.add(g)
                        st.probe('disabled_edge')
                        st.fault('gate_stall')
                        run_len[g] = run_len.get(g, 0) + 1
                        if run_len[g] == 3:
                            st.probe('long_stall')
            ref.edge(enabled=en)
            ten = netlist.enabled_nodes(d, lambda r: twin.b.wires[r].get())
            twin.edge(enabled=lambda leaf: twin.leaf_node.get(id(leaf)) in ten)
        st.cycles += n
        where = 'after %d cycle(s) of step %d' % (n, si)
        if pre is not None:
            # hold: outputs of sequential nodes in a disabled domain do not change across the edge
            for nd in seqnodes:
                if nd['id'] in en_real or KINDS[nd['kind']].mealy:
                    continue
                for k in range(len(nd['ow'])):
                    r = 'n%d.%d' % (nd['id'], k)
                    if b.wires[r].get() != pre[r]:
                        raise Violation('hold', 'hold:%s' % nd['kind'], si,
                                        '%s: %s (%s) in disabled domain %r changed %#x -> %#x' % (
                                            where, r, nd['kind'], netlist.node_domain(d, nd), pre[r], b.wires[r].get()))
        netlist.compare(b, twin.values(), si, where, sigprefix='gate-twin')
        netlist.compare(b, ref.vals, si, where, sigprefix='gate-ref')
        seams.check_wire_ranges(b.hw, where, si)
        seams.check_prepared_empty(where, si)
        log.add(si, h64(tuple(w.get() for w in b.wires.values())))
    if seen_en & seen_dis:
        st.nontrivial = True


def shrink(scn):
    yield from shrink_list(scn, 'steps', 1)
    for i, s in enumerate(scn['steps']):
        if s['n'] > 1 or s['resort']:
            c = dict(scn)
            c['steps'] = list(scn['steps'])
            c['steps'][i] = dict(s, n=1, resort=False)
            yield c
    d = scn['design']
    gd = d['group_driver']
    if d.get('regate'):
        c = dict(scn)
        c['design'] = {k: v for k, v in d.items() if k != 'regate'}
        yield c
    for g in sorted(gd):
        nd = dict(d)
        nd['group_driver'] = {k: v for k, v in gd.items() if k != g}
        c = dict(scn)
        c['design'] = nd
        yield c
    canon = sorted(scn['order'])
    if scn['order'] != canon:
        c = dict(scn)
        c['order'] = canon
        yield c

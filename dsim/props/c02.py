"""C02 - Python-to-Verilog transpilation preserves the behaviour of behavioural blocks.

Programs: (a) every library block that reaches the transpiler (AutoReset, UARTSerializer,
UARTDeserializer, ClockSyncFSM, CMDRequest, CMDResponse, Axi2ClkFSM, VitisKernelFSM);
(b) seeded random behavioural blocks (dsim/progs.py) written as real Python source files
(the transpiler reads sources with inspect); (c) one unsupported construct per program for
the refusal clause.  Co-simulation as in C01 - the real py4hw simulator executes the Python
method, vsim executes the emitted always-block under a PRNG-chosen event order - and the
oracle compares every output and every integer state attribute with the same-named Verilog
variable after every edge, from power-up.
Refusal clause: the outcome for an unsupported construct must be either an exception or text
that vsim accepts and that agrees with Python on the same seeded steps.
"""
import importlib.util
import re
import os
import random
import shutil
import sys
import tempfile
import atexit

import py4hw

from ..core import Violation, shrink_list, h64, known_findings, EventLog, Stats
from .. import seams, vsim, progs
from ..seams import quiet

PROP = 'C02'
TIERS = {'quick': 2700, 'thorough': 360000}
RULE = ('each run: one behavioural block - a library block that reaches the transpiler, or a seeded random clock()/propagate() '
        'program in the supported subset (interval-checked so every intermediate stays in [0, 2**31)), or a program with one '
        'unsupported construct - co-simulated for 30-200 cycles of seeded inputs from power-up; non-trivial = text was '
        'produced and elaborated, >= 1 output or state variable took >= 2 values; distinct = distinct run digests; '
        'distinct_states = distinct program sources')
REAL = ['py4hw.transpilation.python2verilog_transpilation', 'py4hw.rtl_generation (module header, instantiation)', 'py4hw simulator',
        'library behavioural blocks (AutoReset, UART serdes, ClockSyncFSM, CMDRequest/CMDResponse, Axi2ClkFSM, VitisKernelFSM)']
STUB = ['Verilog side: dsim/vsim executes the emitted text', 'random inputs (protocol-agnostic) as the environment']
ASSUMPTIONS = ['vsim reading of IEEE 1364-2005', 'generated programs keep every intermediate value in [0, 2**31) and give every arithmetic '
               'sub-expression a 32-bit context (literal, integer variable or constructor constant)']
PROBES = ['generated_after_simulation', 'two_parents_same_instance_name', 'parameters', 'second_instance_other_constants', 'wide_ports', 'lib_block', 'random_seq', 'random_comb', 'unsupported_refused', 'unsupported_accepted_equivalent', 'state_compared', 'match_case', 'elif_chain']

_TMP = None


def tmpdir():
    global _TMP
    if _TMP is None or not os.path.isdir(_TMP) or getattr(tmpdir, 'pid', None) != os.getpid():
        _TMP = tempfile.mkdtemp(prefix='dsim_c02_')
        tmpdir.pid = os.getpid()
        atexit.register(shutil.rmtree, _TMP, True)
    return _TMP


def load_class(src, cls):
    """the transpiler needs a real source file"""
    name = 'c02prog_%x' % h64(src)
    path = os.path.join(tmpdir(), name + '.py')
    if name in sys.modules:
        return getattr(sys.modules[name], cls)
    with open(path, 'w') as f:
        f.write(src)
    spec = importlib.util.spec_from_file_location(name, path)
    mod = importlib.util.module_from_spec(spec)
    sys.modules[name] = mod
    spec.loader.exec_module(mod)
    return getattr(mod, cls)


LIB = {
    'AutoReset': dict(ins=[], outs=[('reset', 1)], state=['state'],
                      mk=lambda p, w: __import__('py4hw').logic.clock.AutoReset(p, 'blk', w['reset'])),
    'ClockSyncFSM': dict(ins=[('start', 1), ('stop', 1)], outs=[('sync', 1), ('active', 1)], state=['state'],
                         mk=lambda p, w: _imp('py4hw.logic.protocol.uart.clock', 'ClockSyncFSM')(p, 'blk', w['start'], w['stop'], w['sync'], w['active'])),
    'UARTSerializer': dict(ins=[('valid', 1), ('v', 8), ('uart_clock_posedge', 1)], outs=[('ready', 1), ('tx', 1)], state=['state', 'count', 'txv'],
                           mk=lambda p, w: _imp('py4hw.logic.protocol.uart.serdes', 'UARTSerializer')(p, 'blk', w['ready'], w['valid'], w['v'], w['uart_clock_posedge'], w['tx'])),
    'UARTDeserializer': dict(ins=[('rx', 1), ('rx_sample', 1), ('ready', 1)], outs=[('valid', 1), ('v', 8), ('clock_desync', 1)], state=['state', 'count', 'state_v', 'temp'],
                             mk=lambda p, w: _imp('py4hw.logic.protocol.uart.serdes', 'UARTDeserializer')(p, 'blk', w['rx'], w['rx_sample'], w['ready'], w['valid'], w['v'], w['clock_desync'])),
    'Axi2ClkFSM': dict(ins=[('active_handshake', 1), ('clk_target', 8), ('reset_clk_count', 1)], outs=[('clk_count', 64), ('clk_out', 1), ('load_outs', 1)], state=['state', 'target'],
                       mk=lambda p, w: _imp('py4hw.emulation.vitiswrapping', 'Axi2ClkFSM')(p, 'blk', w['active_handshake'], w['clk_target'], w['reset_clk_count'], w['clk_count'], w['clk_out'], w['load_outs'])),
    'VitisKernelFSM': dict(ins=[('ap_start', 1), ('ap_reset', 1), ('load_outs', 1), ('all_sent', 1)], outs=[('ap_done', 1), ('ap_idle', 1), ('ap_ready', 1)], state=['state'],
                           mk=lambda p, w: _imp('py4hw.emulation.vitiswrapping', 'VitisKernelFSM')(p, 'blk', w['ap_start'], w['ap_reset'], w['ap_done'], w['ap_idle'], w['ap_ready'], w['load_outs'], w['all_sent'])),
    'CMDRequest': dict(ins=[('valid', 1), ('c', 8)], outs=[('ready', 1), ('index_in', 8), ('v_in', 16), ('index_out', 8), ('set_index_in', 1), ('set_v_in', 1), ('set_index_out', 1), ('clk_pulse', 1), ('start_resp', 1)],
                       state=['state', 'cur_type', 'new_c', 'temp'], chars='IOK=!?;0123456789ABCDEF',
                       mk=lambda p, w: _imp('py4hw.emulation.HILWrapperUART', 'CMDRequest')(p, 'blk', w['ready'], w['valid'], w['c'], w['index_in'], w['v_in'], w['index_out'], w['set_index_in'], w['set_v_in'], w['set_index_out'], w['clk_pulse'], w['start_resp'])),
    'CMDResponse': dict(ins=[('vin', 16), ('size', 3), ('start_resp', 1), ('ready', 1)], outs=[('valid', 1), ('v', 8)], state=['state', 'temp', 'temp_size', 'aux'], nonzero=['size'],
                        mk=lambda p, w: _imp('py4hw.emulation.HILWrapperUART', 'CMDResponse')(p, 'blk', w['vin'], w['size'], w['start_resp'], w['ready'], w['valid'], w['v'])),
}


def _imp(mod, name):
    return getattr(importlib.import_module(mod), name)


class Dut(py4hw.Logic):
    pass


def gen(rs, tier, index):
    kf = known_findings()
    rng = rs.get('design')
    r = rng.random()
    sr = rs.get('stimulus')
    ncyc = sr.choice([30, 60, 120]) if tier == 'quick' else sr.choice([60, 200])
    if r < 0.2:
        name = rng.choice(sorted(LIB))
        spec = LIB[name]
        scn = {'kind': 'lib', 'lib': name}
        ins = spec['ins']
    elif r < 0.85:
        seq = rng.random() < 0.75
        pg = progs.ProgGen(rng, seq=seq)
        pg.guards = not kf.excluded('transpile-match-guard')
        pg.ternaries = not kf.excluded('transpile-ternary-operand')
        prog = pg.generate()
        scn = {'kind': 'prog', 'prog': prog, 'cargs': [v for n, v in prog['consts']]}
        if prog['consts']:
            # a second instance of the same class with other constructor constants, generated later in the same process
            scn['cargs2'] = [rng.choice([v + 1, v + 17, max(0, v - 1), min(7, v + 20), 0]) for n, v in prog['consts']]
            # ... or both instances in one design, under different parents with the same instance name
            scn['dual'] = rng.random() < 0.5
        ins = prog['ins']
    else:
        kinds = [k for k in sorted(progs.UNSUPPORTED) if not kf.excluded('transpile-' + k)]
        prog = progs.unsupported_program(rng.choice(kinds))
        scn = {'kind': 'unsupported', 'prog': prog, 'cargs': []}
        ins = prog['ins']
    hold = [sr.choice([0.0, 0.5, 0.9]) for _ in ins]
    cur = [1 if (scn['kind'] == 'lib' and n in LIB[scn['lib']].get('nonzero', [])) else 0 for n, w in ins]
    vecs = []
    chars = LIB[scn['lib']].get('chars') if scn['kind'] == 'lib' else None
    ndig = 0
    for _ in range(ncyc):
        for j, (n, w) in enumerate(ins):
            if sr.random() >= hold[j]:
                if chars and n == 'c':
                    # numbers of at most 7 hex digits: the accumulator stays inside the non-negative 32-bit domain
                    ch = sr.choice(chars if ndig < 7 else 'IOK=!?;')
                    ndig = ndig + 1 if ch in '0123456789ABCDEF' else 0
                    cur[j] = ord(ch)
                else:
                    cur[j] = sr.getrandbits(w) if sr.random() < 0.7 else sr.choice([0, (1 << w) - 1, 1])
                if scn['kind'] == 'lib' and n in LIB[scn['lib']].get('nonzero', []) and cur[j] == 0:
                    cur[j] = 1
        vecs.append(list(cur))
    scn['vecs'] = vecs
    scn['presim'] = sr.choice([0, 0, 0, 2, 5]) if scn['kind'] != 'unsupported' else 0    # cycles simulated before the text is generated
    scn['vseed'] = rs.sub('vsched')
    return scn


def build(scn):
    hw = py4hw.HWSystem()
    dut = Dut(hw, 'dut')
    if scn['kind'] == 'lib':
        spec = LIB[scn['lib']]
        ins, outs, state = spec['ins'], spec['outs'], spec['state']
    else:
        p = scn['prog']
        ins, outs, state = [tuple(x) for x in p['ins']], [tuple(x) for x in p['outs']], [s[0] for s in p['state']]
    w = {}
    for n, wd in ins:
        w[n] = hw.wire(n, wd)
        dut.addIn(n, w[n])
    for n, wd in outs:
        w[n] = hw.wire(n, wd)
        dut.addOut(n, w[n])
    blk2 = None
    with quiet():
        if scn['kind'] == 'lib':
            blk = spec['mk'](dut, w)
        elif scn.get('dual') and scn.get('cargs2') is not None:
            # two parents, one instance name, different constructor constants
            cls = load_class(scn['prog']['src'], scn['prog']['cls'])
            blks = []
            for gi, cargs in enumerate((scn['cargs'], scn['cargs2'])):
                g = Dut(dut, 'g%d' % gi)
                gouts = []
                for n, wd in ins:
                    g.addIn(n, w[n])
                for n, wd in outs:
                    if gi == 0:
                        ow_ = w[n]
                    else:
                        ow_ = hw.wire(n + '_b', wd)
                        dut.addOut(n + '_b', ow_)
                        w[n + '_b'] = ow_
                    g.addOut(n, ow_)
                    gouts.append(ow_)
                blks.append(cls(g, 'blk', *([w[n] for n, _ in ins] + gouts + list(cargs))))
            blk, blk2 = blks
        else:
            cls = load_class(scn['prog']['src'], scn['prog']['cls'])
            args = [w[n] for n, _ in ins] + [w[n] for n, _ in outs] + list(scn.get('cargs', []))
            blk = cls(dut, 'blk', *args)
    build.second = blk2
    return hw, dut, blk, w, ins, outs, state


def cosim(scn, log, st, zero_powerup=False):
    """returns None (agree), ('refused', exc), ('illegal', detail) or ('mismatch', step, what, detail)"""
    hw, dut, blk, w, ins, outs, state = build(scn)
    blk2 = build.second
    gen_dut = dut
    if scn.get('presim'):
        # the instance the text is generated from has been simulated for a few cycles; the text must still describe the
        # block from power-up, so the Python side of the comparison is a second, fresh instance
        with quiet():
            psim = hw.getSimulator()
            for vec in scn['vecs'][:scn['presim']]:
                for (n, wd), v in zip(ins, vec):
                    w[n].put(v)
                psim.clk(1)
        st.probe('generated_after_simulation')
        hw, dut, blk, w, ins, outs, state = build(scn)
        blk2 = build.second
    try:
        with quiet():
            text = py4hw.VerilogGenerator(gen_dut).getVerilogForHierarchy()
    except Exception as e:
        return ('refused', '%s: %s' % (type(e).__name__, str(e)[:200]))
    try:
        design = vsim.elaborate(vsim.parse(text), 'Dut')
    except (vsim.VParseError, vsim.VElabError) as e:
        return ('illegal', '%s' % e)
    vs = vsim.Sim(design, rng=random.Random(scn['vseed']), zero_powerup=zero_powerup, settle0=False)
    has_clk = 'clk' in design.inputs
    if has_clk:
        vs.set('clk', 0)
    vecs = scn['vecs']
    first = vecs[0] if vecs else [0] * len(ins)
    for (n, wd), v in zip(ins, first):
        w[n].put(v)
        vs.set(n, v)
    vs.settle()
    with quiet():
        sim = hw.getSimulator()
    seen = set()
    is_seq = blk.isClockable()
    names = design.signal_names() if hasattr(design, 'signal_names') else []
    pfx = 'i_g0.i_blk.' if blk2 is not None else 'i_blk.'
    svars = [s for s in state if (pfx + s) in names] if is_seq else []
    if blk2 is not None:
        st.probe('two_parents_same_instance_name')

    class DomainExit(Exception):
        pass

    def compare(step):
        # the statement covers input sequences whose intermediate values stay non-negative and within 32 bits for
        # local and state variables: a history that leaves that domain is not compared any further
        for s_ in state:
            pv = getattr(blk, s_, 0)
            if isinstance(pv, int) and (pv < 0 or pv >= (1 << 31)):
                raise DomainExit()
        for n, wd in outs:
            pv = w[n].get()
            vv, xm = vs.get(n)
            seen.add((n, pv))
            if xm or vv != pv:
                return ('mismatch', step, 'output', 'cycle %d output %s: Python %#x, Verilog %s' % (step, n, pv, '%#x' % vv if not xm else 'x (value %#x mask %#x)' % (vv, xm)))
        if blk2 is not None:
            for n, wd in outs:
                pv = w[n + '_b'].get()
                vv, xm = vs.get(n + '_b')
                if xm or vv != pv:
                    return ('mismatch', step, 'output', 'cycle %d output %s of the second instance (constants %s): Python %#x, Verilog %s' % (
                        step, n, scn['cargs2'], pv, '%#x' % vv if not xm else 'x'))
        for s in svars:
            pv = getattr(blk, s)
            vv, xm = vs.peek(pfx + s)
            seen.add((s, pv))
            st.probe('state_compared')
            if xm or (vv & 0xFFFFFFFF) != (pv & 0xFFFFFFFF):
                return ('mismatch', step, 'state', 'cycle %d state variable %s: Python %d, Verilog %s' % (step, s, pv, vv if not xm else 'x'))
        return None
    try:
        m = compare(0)
    except DomainExit:
        return None
    if m:
        return m
    for si, vec in enumerate(vecs, 1):
        for (n, wd), v in zip(ins, vec):
            w[n].put(v)
            vs.set(n, v)
        with quiet():
            sim.clk(1)
        vs.settle()
        if has_clk:
            vs.clock('clk')
        st.cycles += 1
        try:
            m = compare(si)
        except DomainExit:
            st.probe('left_value_domain')
            log.add(si, 'left the value domain')
            break
        if m:
            return m
        log.add(si, tuple(w[n].get() for n, _ in outs))
    if len({k for k, v in seen}) < len(seen):
        st.nontrivial = True
    if vs.stats.get('order_choices', 0):
        st.fault('vsched', vs.stats['order_choices'])
    return None


def run(scn, log, st):
    kind = scn['kind']
    if kind == 'lib':
        st.probe('lib_block')
        st.state(scn['lib'])
    else:
        st.state(scn['prog']['src'])
        if kind == 'prog':
            st.probe('random_seq' if scn['prog']['seq'] else 'random_comb')
            if any(w > 32 for n, w in scn['prog']['ins']):
                st.probe('wide_ports')
            if 'getParameterValue' in scn['prog']['src']:
                st.probe('parameters')
            if 'match ' in scn['prog']['src']:
                st.probe('match_case')
            if 'elif ' in scn['prog']['src']:
                st.probe('elif_chain')
    m = cosim(scn, log, st)
    if m is None and scn.get('cargs2') is not None and scn['cargs2'] != scn['cargs'] and not scn.get('dual'):
        st.probe('second_instance_other_constants')
        m = cosim(dict(scn, cargs=scn['cargs2']), log, st)
        if m is not None and m[0] == 'mismatch':
            m = (m[0], m[1], m[2], 'second instance of the class (constructor constants %s after %s): %s' % (scn['cargs2'], scn['cargs'], m[3]))
    what = scn.get('lib') or scn['prog'].get('unsupported') or ('seq' if scn['prog']['seq'] else 'comb')
    if kind == 'unsupported':
        if m is None:
            st.probe('unsupported_accepted_equivalent')
            return
        if m[0] == 'refused':
            st.probe('unsupported_refused')
            st.nontrivial = True
            log.add('refused', m[1][:60])
            return
        if m[0] == 'illegal':
            raise Violation('not-refused', 'unsupported:%s:illegal-text' % what, 0,
                            'construct %s was not refused; the returned text does not elaborate: %s' % (what, m[1]))
        raise Violation('not-refused', 'unsupported:%s:differs' % what, m[1],
                        'construct %s was not refused and the emitted module behaves differently: %s' % (what, m[3]))
    if m is None:
        return
    if m[0] == 'refused':
        # the property speaks of methods "the transpiler accepts": a refusal with an error is allowed
        st.probe('refused_by_transpiler')
        log.add('refused', m[1][:60])
        return
    if m[0] == 'illegal':
        raise Violation('illegal-text', 'illegal:%s' % what, 0, 'emitted text does not elaborate: %s' % m[1])
    m2 = cosim(scn, EventLog(), Stats(), zero_powerup=True)
    suffix = ':uninit-storage' if m2 is None else ''
    if kind == 'prog' and re.search(r'^\s*case \S+ if ', scn['prog']['src'], re.M):
        suffix += ':match-guard'          # parameter predicate of KF-C02-3
    raise Violation('transpile-mismatch', 'transpile:%s:%s%s' % (what, m[2], suffix), m[1], m[3])


def sig_base(sig):
    return sig.replace(':match-guard', '')


def shrink(scn):
    yield from shrink_list(scn, 'vecs', 1)
    if scn['kind'] != 'prog':
        return
    # AST-level shrinking of the clock()/propagate() body: drop a statement at any depth, or replace an
    # if / match by one of its bodies
    import ast
    p = scn['prog']
    try:
        tree = ast.parse(p['src'])
    except SyntaxError:
        return
    cls = next(n for n in tree.body if isinstance(n, ast.ClassDef))
    fn = next(n for n in cls.body if isinstance(n, ast.FunctionDef) and n.name in ('clock', 'propagate'))

    def bodies(node):
        for field in ('body', 'orelse'):
            lst = getattr(node, field, None)
            if isinstance(lst, list) and lst and isinstance(lst[0], ast.stmt):
                yield node, field, lst
                for st in lst:
                    yield from bodies(st)
        if isinstance(node, ast.Match):
            for case in node.cases:
                yield case, 'body', case.body
                for st in case.body:
                    yield from bodies(st)
    sites = list(bodies(fn))
    for owner, field, lst in sites:
        for k in range(len(lst)):
            orig = list(lst)
            st = lst[k]
            variants = [[]]
            if isinstance(st, ast.If):
                variants += [list(st.body)] + ([list(st.orelse)] if st.orelse else [])
            elif isinstance(st, ast.Match):
                variants += [list(c.body) for c in st.cases]
            for rep in variants:
                new = orig[:k] + rep + orig[k + 1:]
                if not new:
                    new = [ast.Pass()]
                setattr(owner, field, new)
                try:
                    src = ast.unparse(ast.fix_missing_locations(tree)) + '\n'
                    compile(src, '<shrink>', 'exec')
                    ok = True
                except Exception:
                    ok = False
                setattr(owner, field, orig)
                if ok and src != p['src']:
                    yield dict(scn, prog=dict(p, src=src))

"""C14 - fixed-point blocks agree with exact scaled-integer arithmetic.

Plain statement of fit as for C07/C08/C13: sampling of (format, operand) space against an
exact oracle; the simulation adds the live clocked testbench (operand sequence through
optional input registers) and schedule faults (perm_children, resort, sim_restart,
extra_settle) with the C04/C06 invariants on all internal wires.
"""
import random
from fractions import Fraction

import py4hw
from py4hw.logic.arithmetic_fxp import FixedPointAdd, FixedPointSub, FixedPointMult, FixedPointSign
from py4hw.logic.relational import FixedPointComparator

from ..core import Violation, shrink_list, h64
from .. import seams
from ..seams import quiet
from ..catalog import S, M
from .c04 import local_fixpoint

PROP = 'C14'
TIERS = {'quick': 7500, 'thorough': 1280000}
RULE = ('each run: one fixed-point block (add, sub, mult, sign, comparator) in a seeded signed format (1, i, f) with '
        '1 <= i+f <= 31 (mult also with a different, legal result format), 16-64 operand pairs: all encodings in shuffled '
        'order for widths <= 6, boundary-biased otherwise (most negative, -1, 0, 1, max, random); non-trivial = >= 8 '
        'vectors checked and a schedule fault fired; distinct = distinct run digests; distinct_states = distinct '
        '(block, format) pairs')
REAL = ['py4hw.logic.arithmetic_fxp (FixedPointAdd/Sub/Mult/Sign)', 'py4hw.logic.relational.FixedPointComparator', 'py4hw simulator']
STUB = ['stimulus']
ASSUMPTIONS = ['product = exact signed product floored to the result fraction bits, then reduced modulo the result width',
               'comparator only checked where the signed difference is representable in the operand format']
PROBES = ['operand_wires_with_one_name', 'user_class_named_like_a_primitive', 'block_in_gated_domain', 'operands_from_constant_blocks', 'operands_from_helper_constants', 'outputs_read_at_time_zero', 'settled_by_clk0', 'block_added_after_simulation', 'sign_only_format', 'squarer', 'mixed_operand_formats', 'most_negative', 'mult_full_width', 'cmp_representable', 'cmp_unrepresentable_skipped', 'wrap_add']


def gen(rs, tier, index):
    rng = rs.get('design')
    blk = rng.choice(['add', 'sub', 'mult', 'mult', 'sign', 'cmp'])
    f = rng.randint(0, 16)
    i = rng.randint(0 if (f > 0 or rng.random() < 0.3) else 1, min(15, 31 - f))      # 1.0.0 = the sign-only format (-1, 0)
    if rng.random() < 0.05:
        i, f = 0, 0
    af = [1, i, f]
    bf = list(af)
    rf = list(af)
    square = False
    if blk == 'mult':
        r = rng.random()
        if r < 0.3:
            # mixed operand formats (the second operand narrower or wider than the first)
            f2 = rng.randint(0, 12)
            i2 = rng.randint(0 if (f2 > 0 or rng.random() < 0.5) else 1, min(12, 31 - f2))
            bf = [1, i2, f2] if rng.random() < 0.85 else [1, 0, 0]
        elif r < 0.45:
            square = True               # one wire on both operands (a squarer)
        if rng.random() < 0.5:
            rfrac = rng.randint(0, af[2] + bf[2])
            rint = rng.randint(0 if rfrac > 0 else 1, min(af[1] + bf[1] + 1, max(1, 31 - rfrac)))
            rf = [1, rint, rfrac]
    w = sum(af)
    wb = sum(bf)
    sr = rs.get('stimulus')
    full = (1 << w) - 1
    special = [0, 1, full, 1 << (w - 1), (1 << (w - 1)) - 1, (1 << (w - 1)) + 1 & full, full - 1]
    n = sr.choice([16, 32]) if tier == 'quick' else sr.choice([32, 64])
    vecs = []
    if w <= 6 and blk != 'sign' and wb == w:
        allp = [(a, b) for a in range(1 << w) for b in range(1 << w)]
        sr.shuffle(allp)
        vecs = [list(p) for p in allp[:max(n, 64)]]
    else:
        for _ in range(n):
            a = sr.choice(special) if sr.random() < 0.5 else sr.getrandbits(w)
            b = sr.choice(special) if sr.random() < 0.5 else sr.getrandbits(w)
            if sr.random() < 0.1:
                b = a
            if wb != w:
                fb = (1 << wb) - 1
                b = sr.choice([0, 1, fb, 1 << (wb - 1), (1 << (wb - 1)) - 1, sr.getrandbits(wb)]) & fb
            vecs.append([a & full, b if wb != w else b & full])
    fr = rs.get('faults')
    steps = [{'vec': v, 'faults': [x for x in ('resort', 'sim_restart', 'extra_settle') if fr.random() < 0.05]} for v in vecs]
    return {'blk': blk, 'af': af, 'bf': bf, 'square': square, 'rf': rf, 'steps': steps, 'perm': rs.sub('perm') if fr.random() < 0.7 else None,
            'inregs': rng.random() < 0.5, 'settle': fr.choice(['clk1', 'clk1', 'clk0', 'prop']), 'late_dut': fr.random() < 0.2,
            # operand source: poked wires, Constant blocks that exist before the block under test (value re-assigned every
            # vector), or two placeholders from LogicHelper.hw_constant with the same initial value
            'src': fr.choice(['put', 'put', 'const', 'helper_const']),
            # time_zero: the first vector is applied before the simulator is asked for, outputs are read before any clk()
            'time_zero': fr.random() < 0.3,
            # gated_box: the (combinational) block sits in a sub-block whose clock driver is gated, next to a register of that
            # domain; its operands come from registers of the running system domain; the enable is low most of the time
            'gated_box': fr.random() < 0.2, 'en_seed': rs.sub('en'),
            # namesake: a user block of the same system whose class is called like a library primitive used inside the
            # fixed-point blocks; it is instantiated first
            'namesake': fr.choice([None] * 6 + ['Mul', 'Sub', 'SignExtend', 'Range']),
            'samename': fr.random() < 0.12}


class _Box(py4hw.Logic):
    pass


def _namesake_class(name):
    """a user-defined structural block whose class happens to carry the name of a library primitive: r = 3 * a"""
    def __init__(self, parent, nm, a, r):
        py4hw.Logic.__init__(self, parent, nm)
        self.addIn('a', a)
        self.addOut('r', r)
        t = self.wire('t', r.getWidth())
        py4hw.ShiftLeftConstant(self, 'x2', a, 1, t)
        py4hw.Add(self, 'x3', t, a, r)
    return type(name, (py4hw.Logic,), {'__init__': __init__})


def run(scn, log, st):
    blk, af, rf = scn['blk'], tuple(scn['af']), tuple(scn['rf'])
    bf = tuple(scn.get('bf', scn['af']))
    square = bool(scn.get('square'))
    w, rw, wb = sum(af), sum(rf), sum(bf)
    hw = py4hw.HWSystem()
    src = scn.get('src', 'put') if not (scn['inregs'] or square) else 'put'
    first = scn['steps'][0]['vec'] if scn['steps'] else [0, 0]
    drivers = None
    if src == 'const':
        ins = [hw.wire('a', w), hw.wire('b', wb)]
        drivers = [py4hw.Constant(hw, 'ka', first[0], ins[0]), py4hw.Constant(hw, 'kb', first[1], ins[1])]
        st.probe('operands_from_constant_blocks')
    elif src == 'helper_const':
        from py4hw.helper import LogicHelper
        g = LogicHelper(hw)
        ins = [g.hw_constant(w, 0), g.hw_constant(wb, 0)]       # two placeholders, one initial value
        drivers = [x.getSource().parent for x in ins]
        st.probe('operands_from_helper_constants')
    else:
        ins = [hw.wire('a', w), hw.wire('b', wb)]

    def drive(a_, b_):
        if drivers is None:
            ins[0].put(a_)
            ins[1].put(b_)
        else:
            drivers[0].value = a_
            drivers[1].value = b_
    feed = ins
    if scn['inregs']:
        feed = [hw.wire('qa', w), hw.wire('qb', wb)]
        py4hw.Reg(hw, 'ra', ins[0], feed[0])
        py4hw.Reg(hw, 'rb', ins[1], feed[1])
    if square:
        feed = [feed[0], feed[0]]
        st.probe('squarer')
    if bf != af:
        st.probe('mixed_operand_formats')
    outs = {}
    par = hw
    ns_out = None
    if scn.get('namesake'):
        ns_out = hw.wire('ns_r', w)
        _namesake_class(scn['namesake'])(hw, 'namesake', feed[0], ns_out)
        st.probe('user_class_named_like_a_primitive')
    if scn.get('late_dut'):
        # the simulator exists and has run before the block under test is instantiated - inside an existing sub-block
        par = _Box(_Box(hw, 'datapath'), 'inner')
        t_ = par.wire('tie')
        py4hw.Constant(par, 'tie', 0, t_)
        py4hw.Buf(par, 'keep', t_, par.wire('kept'))
        with quiet():
            hw.getSimulator().clk(2)
        st.fault('late_add')
        st.probe('block_added_after_simulation')
    en_w = None
    if scn.get('gated_box') and scn['inregs'] and not scn.get('late_dut'):
        par = _Box(hw, 'gated')
        en_w = hw.wire('en')
        par.clockDriver = py4hw.ClockDriver('gclk', base=hw.clockDriver, enable=en_w)
        py4hw.Reg(par, 'dreg', feed[0], par.wire('dq', w))
        en_rng = random.Random(scn.get('en_seed', 0))
        st.probe('block_in_gated_domain')
    if scn.get('samename') and par is hw and not square and blk != 'sign':
        # the block sits in a user block that takes one operand through a port and makes the other one itself: a local
        # wire that carries the very name of the wire behind the port (names are unique per owner only)
        par = _Box(hw, 'scale')
        par.addIn(feed[0].name, feed[0])
        par.addIn('other', feed[1])
        local = par.wire(feed[0].name, wb)
        py4hw.Buf(par, 'copy', feed[1], local)
        feed = [feed[0], local]
        st.probe('operand_wires_with_one_name')
    time_zero = bool(scn.get('time_zero')) and not scn['inregs'] and not scn.get('late_dut') and bool(scn['steps'])
    if time_zero:
        drive(first[0], first[0] if square else first[1])
        st.probe('outputs_read_at_time_zero')
    with quiet():
        if blk == 'add':
            outs['r'] = hw.wire('r', w)
            FixedPointAdd(par, 'dut', feed[0], af, feed[1], af, outs['r'], af)
        elif blk == 'sub':
            outs['r'] = hw.wire('r', w)
            FixedPointSub(par, 'dut', feed[0], af, feed[1], af, outs['r'], af)
        elif blk == 'mult':
            outs['r'] = hw.wire('r', rw)
            FixedPointMult(par, 'dut', feed[0], af, feed[1], bf, outs['r'], rf)
        elif blk == 'sign':
            outs['s'] = hw.wire('s')
            FixedPointSign(par, 'dut', feed[0], af, outs['s'])
            py4hw.Buf(hw, 'keep_b', feed[1], hw.wire('bsink', w))
        else:
            for k in ('gt', 'eq', 'lt'):
                outs[k] = hw.wire(k)
            FixedPointComparator(par, 'dut', feed[0], af, feed[1], af, outs['gt'], outs['eq'], outs['lt'])
    st.sched(scn.get('perm'), tuple(tuple(x['faults']) for x in scn['steps']))
    if scn.get('perm') is not None:
        seams.perm_children(hw, random.Random(scn['perm']), st)
    with quiet():
        sim = hw.getSimulator()
    st.state(blk, af, bf, rf)
    if w == 1 or wb == 1:
        st.probe('sign_only_format')
    checked = 0
    for si, step in enumerate(scn['steps'], 1):
        for f in step['faults']:
            if f == 'resort':
                with quiet():
                    sim = hw.getSimulator()
                st.fault('resort')
            elif f == 'sim_restart':
                with quiet():
                    sim = seams.restart_simulator(hw, st)
            else:
                sim.propagateAll()
                st.fault('extra_settle')
        a, b = step['vec']
        if square:
            b = a
        drive(a, b)
        if en_w is not None:
            en_w.put(1 if en_rng.random() < 0.25 else 0)
        how = scn.get('settle', 'clk1') if not scn['inregs'] else 'clk1'
        if time_zero and si == 1 and not step['faults']:
            how = 'none'            # nothing but the creation of the simulator has happened
        with quiet():
            if how == 'none':
                pass
            elif how == 'clk0':
                sim.clk(0)              # settle only, no edge
                st.probe('settled_by_clk0')
            elif how == 'prop':
                sim.propagateAll()
            else:
                sim.clk(1)
        st.cycles += 1
        o = {k: x.get() for k, x in outs.items()}
        if ns_out is not None and not scn['inregs'] and ns_out.get() != M(3 * a, w):
            raise Violation('fxp', 'fxp:namesake:value', si, 'user block %s (r = 3 * a) next to the fixed-point block: a=%#x r=%#x' % (scn['namesake'], a, ns_out.get()))
        sa, sb = S(a, w), S(b, wb)
        if a == 1 << (w - 1) or b == 1 << (wb - 1):
            st.probe('most_negative')
        V = lambda what, detail: Violation('fxp', 'fxp:%s:%s' % (blk, what), si, 'format %s a=%#x b=%#x: %s' % (af, a, b, detail))
        if blk == 'add':
            exp = M(sa + sb, w)
            if not (-(1 << (w - 1)) <= sa + sb < (1 << (w - 1))):
                st.probe('wrap_add')
            if o['r'] != exp:
                raise V('value', 'sum %#x expected %#x' % (o['r'], exp))
        elif blk == 'sub':
            exp = M(sa - sb, w)
            if o['r'] != exp:
                raise V('value', 'difference %#x expected %#x' % (o['r'], exp))
        elif blk == 'mult':
            sh = af[2] + bf[2] - rf[2]
            prod = sa * sb
            exp = M(prod >> sh if sh >= 0 else prod << (-sh), rw)
            if abs(prod).bit_length() > w + wb - 3:
                st.probe('mult_full_width')
            if o['r'] != exp:
                raise V('value', 'result format %s: product %#x expected %#x' % (rf, o['r'], exp))
        elif blk == 'sign':
            if o['s'] != (1 if sa < 0 else 0):
                raise V('value', 'sign %d' % o['s'])
        else:
            d = sa - sb
            if -(1 << (w - 1)) <= d < (1 << (w - 1)):
                st.probe('cmp_representable')
                exp = (int(sa > sb), int(sa == sb), int(sa < sb))
                got = (o['gt'], o['eq'], o['lt'])
                if got != exp:
                    raise V('order', '(gt,eq,lt)=%s expected %s' % (got, exp))
            else:
                st.probe('cmp_unrepresentable_skipped')
                continue
        checked += 1
        if si % 16 == 1:
            local_fixpoint(sim, si, 'cycle %d' % si)
            seams.check_wire_ranges(hw, 'cycle %d' % si, si)
        seams.check_prepared_empty('cycle %d' % si, si)
        log.add(si, a, b, sorted(o.items()))
    if checked >= 8 and st.faults:
        st.nontrivial = True


def shrink(scn):
    yield from shrink_list(scn, 'steps', 1)
    if scn.get('perm') is not None:
        yield dict(scn, perm=None)
    if scn['inregs']:
        yield dict(scn, inregs=False)
    if any(s['faults'] for s in scn['steps']):
        yield dict(scn, steps=[dict(s, faults=[]) for s in scn['steps']])

"""dsim.netlist - seeded netlist descriptions, the real py4hw build, and the reference evaluator.

A design description is plain JSON (it is part of the replay file):
  inputs : [{'name': 'i0', 'w': 8}, ...]
  nodes  : [{'id': 3, 'kind': 'Add', 'p': {...}, 'ins': ['i0', 'n1.0'], 'ow': [8], 'grp': ['g0','g2'], 'dom': 0}]
  outputs: ['n5.0', ...]              top-level outputs of the Dut
  order  : [ids]                      instantiation order (the schedule seam of C04)
  domains: [{'parent': None|k, 'en': ref|None, 'grp': [...]}]   clock domains (C10), optional
"""
import py4hw
from py4hw.base import Logic, Wire

from .catalog import KINDS, Pool, M, rand_width
from .core import Violation
from . import seams


class Grp(Logic):
    """plain structural container"""
    pass


class Dut(Logic):
    pass


def parse_ref(ref):
    if ref[0] == 'i':
        return ('i', int(ref[1:]), 0)
    a, b = ref[1:].split('.')
    return ('n', int(a), int(b))


# =========================================================================== generation

def gen_design(rng, n_nodes, kinds, max_inputs=8, maxw=70, hier_depth=0, feedback=0.0,
               n_outputs=None, seq_kinds=None, seq_frac=0.0, big=False):
    """big: widths and input counts beyond the usual ones (catalog.set_big) for this design"""
    from .catalog import set_big
    if big:
        set_big(True)
        try:
            d = gen_design(rng, n_nodes, kinds, max_inputs=max_inputs, maxw=min(maxw * 4, 260), hier_depth=hier_depth, feedback=feedback,
                           n_outputs=n_outputs, seq_kinds=seq_kinds, seq_frac=seq_frac)
        finally:
            set_big(False)
        d['big'] = True
        return d
    return _gen_design(rng, n_nodes, kinds, max_inputs, maxw, hier_depth, feedback, n_outputs, seq_kinds, seq_frac)


def _gen_design(rng, n_nodes, kinds, max_inputs=8, maxw=70, hier_depth=0, feedback=0.0,
                n_outputs=None, seq_kinds=None, seq_frac=0.0):
    """Seeded generator.  Nodes come out in dataflow order (ids increase along dataflow);
    feedback edges are added afterwards and only from Moore sequential outputs, so no
    combinational cycle can arise."""
    pool = Pool(rng, max_inputs=max_inputs, maxw=maxw)
    nodes = []

    def emit(kname, params, ins, ows, guard=False):
        nid = len(nodes)
        nodes.append({'id': nid, 'kind': kname, 'p': params, 'ins': list(ins), 'ow': list(ows), 'grp': []})
        if guard:
            nodes[-1]['guard'] = True       # divisor guard: never rewired, never pruned away from its divider
        refs = []
        for k, w in enumerate(ows):
            r = 'n%d.%d' % (nid, k)
            refs.append(r)
            pool.add(r, w)
        return refs
    pool.emit = emit
    # a few inputs of assorted widths to start from
    for _ in range(rng.randint(1, 3)):
        pool.new_input(rand_width(rng, 1, maxw))
    pool.new_input(1)
    cw = [k.weight for k in kinds]
    sw = [k.weight for k in seq_kinds] if seq_kinds else None
    guard = 0
    while len(nodes) < n_nodes and guard < n_nodes * 10:
        guard += 1
        if seq_kinds and rng.random() < seq_frac:
            k = rng.choices(seq_kinds, sw)[0]
        else:
            k = rng.choices(kinds, cw)[0]
        params, ins, ows = k.plan(rng, pool)
        if any(w > maxw + 8 for w in ows):
            continue
        emit(k.name, params, ins, ows)
    # option siblings: a second instance of a block on the same input wires, with the same port widths, that differs only in
    # a constructor option / constant (the configuration in which a module name that ignores the option does harm)
    if nodes and rng.random() < 0.4:
        names = {k.name for k in kinds} | {k.name for k in (seq_kinds or [])}
        cands = [n for n in nodes if n['kind'] in OPTION_VARIANTS and n['kind'] in names and not n.get('guard')]
        for n in rng.sample(cands, min(len(cands), 2)):
            p2 = OPTION_VARIANTS[n['kind']](rng, n['p'], n['ow'])
            if p2 is not None and p2 != n['p']:
                emit(n['kind'], p2, n['ins'], n['ow'])
    # widths of every signal
    sigw = {i['name']: i['w'] for i in pool.inputs}
    for n in nodes:
        for k, w in enumerate(n['ow']):
            sigw['n%d.%d' % (n['id'], k)] = w
    # feedback: rewire some inputs to later Moore outputs of the same width
    if feedback > 0:
        moore = [(r, w, n['id']) for n in nodes if KINDS[n['kind']].seq and not KINDS[n['kind']].mealy
                 for k, w in enumerate(n['ow']) for r in ['n%d.%d' % (n['id'], k)]]
        for n in nodes:
            if 'div' in KINDS[n['kind']].tags or n.get('guard'):
                continue        # keep the divisor guard in place
            for j, ref in enumerate(n['ins']):
                if rng.random() < feedback:
                    c = [m for m in moore if m[1] == sigw[ref] and m[2] >= n['id']]
                    if c:
                        n['ins'][j] = rng.choice(c)[0]
    # hierarchy
    if hier_depth > 0:
        ngroups = rng.randint(1, 4)
        paths = []
        for g in range(ngroups):
            if paths and rng.random() < 0.5 and len(rng.choice(paths)) < hier_depth:
                base = rng.choice([p for p in paths if len(p) < hier_depth])
                paths.append(base + ['g%d' % g])
            else:
                paths.append(['g%d' % g])
        for n in nodes:
            if rng.random() < 0.7:
                n['grp'] = list(rng.choice(paths))
    # outputs: every signal nobody reads, plus a few random ones
    used = set()
    for n in nodes:
        used.update(n['ins'])
    outs = [r for n in nodes for k in range(len(n['ow'])) for r in ['n%d.%d' % (n['id'], k)] if r not in used]
    extra = [r for n in nodes for k in range(len(n['ow'])) for r in ['n%d.%d' % (n['id'], k)] if r in used]
    rng.shuffle(extra)
    outs += extra[:2]
    if n_outputs is not None and len(outs) > n_outputs:
        # keep all, observability matters more than a small interface
        pass
    return {'inputs': pool.inputs, 'nodes': nodes, 'outputs': outs, 'order': [n['id'] for n in nodes]}


def _flipbit(rng, v, w):
    """the same value with one bit flipped - anywhere, also beyond bit 31 (values that agree in their low 32 bits)"""
    ks = [k for k in (0, 0, 1, 7, 8, 15, 16, 31, 32, 33, 63, 64, w - 1) if 0 <= k < w]
    if w > 32 and rng.random() < 0.5:
        return v ^ (1 << rng.randrange(32, w))
    return v ^ (1 << rng.choice(ks + [rng.randrange(w)]))


OPTION_VARIANTS = {
    'ShiftRight': lambda rng, p, ow: dict(p, mode={'logical': 'arith', 'arith': 'logical'}[p['mode']]) if p.get('mode') in ('logical', 'arith') else None,
    'ShiftLeftConstant': lambda rng, p, ow: dict(p, n=p['n'] + 1),
    'ShiftRightConstant': lambda rng, p, ow: dict(p, n=p['n'] + 1),
    'Constant': lambda rng, p, ow: dict(p, value=_flipbit(rng, p['value'], ow[0])),
    'EqualConstant': lambda rng, p, ow: dict(p, v=(p['v'] ^ 1)),
    'NotEqualConstant': lambda rng, p, ow: dict(p, v=(p['v'] ^ 1)),
    'Reg': lambda rng, p, ow: dict(p, rv=(_flipbit(rng, p['rv'], ow[0]) if p['rv'] >= 0 else p['rv'] - 1)),
    'ParamScaler': lambda rng, p, ow: dict(p, step=p['step'] + 1),
    'Sequence': lambda rng, p, ow: dict(p, values=list(reversed(p['values'])) + [p['values'][0] ^ 1]),
}


def node_domain(desc, n):
    """key of the nearest ancestor group that has its own clock driver ('' = top-level driver)"""
    if str(n['id']) in (desc.get('node_driver') or {}):
        return 'node:%d' % n['id']          # a driver placed directly on the block (also on a clockable leaf)
    gd = desc.get('group_driver') or {}
    path = list(n['grp'])
    while path:
        k = '/'.join(path)
        if k in gd:
            return k
        path.pop()
    return ''


def enabled_nodes(desc, getval):
    """ids of the nodes whose clock domain is enabled, judged from pre-edge values"""
    gd = dict(desc.get('group_driver') or {})
    for nid, dv in (desc.get('node_driver') or {}).items():
        gd['node:%s' % nid] = dv
    gd[''] = {'en': desc.get('top_enable')}       # the top-level driver itself may be gated (enable attached after construction)
    out = set()
    for n in desc['nodes']:
        k = node_domain(desc, n)
        if gd[k].get('en') is None or getval(gd[k]['en']) != 0:
            out.add(n['id'])
    return out


def sig_widths(desc):
    sigw = {i['name']: i['w'] for i in desc['inputs']}
    for n in desc['nodes']:
        for k, w in enumerate(n['ow']):
            sigw['n%d.%d' % (n['id'], k)] = w
    return sigw


def prune(desc, keep_ids):
    """sub-design containing only keep_ids (and what they transitively read); used by shrinkers.
    Signals whose producer is dropped become fresh primary inputs."""
    keep = set(keep_ids)
    byid = {n['id']: n for n in desc['nodes']}
    # a divider keeps its divisor guard (Or2 with constant 1), otherwise shrinking manufactures divisions by zero
    grew = True
    while grew:
        grew = False
        for nid in list(keep):
            n = byid.get(nid)
            if n is None:
                continue
            if 'div' in KINDS[n['kind']].tags or n.get('guard'):
                for r in n['ins']:
                    t = parse_ref(r)
                    if t[0] == 'n' and byid.get(t[1], {}).get('guard') and t[1] not in keep:
                        keep.add(t[1])
                        grew = True
    sigw = sig_widths(desc)
    nodes = [dict(n) for n in desc['nodes'] if n['id'] in keep]
    inputs = [dict(i) for i in desc['inputs']]
    have = {i['name'] for i in inputs}
    remap = {}
    for n in nodes:
        new_ins = []
        for r in n['ins']:
            if r[0] == 'n' and parse_ref(r)[1] not in keep:
                if r not in remap:
                    nm = 'i%d' % len(inputs)
                    inputs.append({'name': nm, 'w': sigw[r]})
                    remap[r] = nm
                r = remap[r]
            new_ins.append(r)
        n['ins'] = new_ins
    outs = [r for r in desc['outputs'] if parse_ref(r)[0] == 'n' and parse_ref(r)[1] in keep]
    used = set()
    for n in nodes:
        used.update(n['ins'])
    for n in nodes:
        for k in range(len(n['ow'])):
            r = 'n%d.%d' % (n['id'], k)
            if r not in used and r not in outs:
                outs.append(r)
    d = dict(desc)
    d.update({'inputs': inputs, 'nodes': nodes, 'outputs': outs, 'order': [i for i in desc['order'] if i in keep]})
    return d


# =========================================================================== real build

class Built:
    """The real py4hw system for a description.  Nodes can be added incrementally
    (fault late_add) in any order (schedule seam)."""

    def __init__(self, desc, sysname='HWSystem'):
        self.desc = desc
        self.sigw = sig_widths(desc)
        if desc.get('own_top_driver'):
            # the system is created around a clock driver of the caller (HWSystem(clock_driver=...)); the caller keeps its
            # reference and gates the system through it
            self.top_drv = py4hw.ClockDriver('clk', 50E6, 0)
            self.hw = py4hw.HWSystem(clock_driver=self.top_drv)
        else:
            self.hw = py4hw.HWSystem()
            self.top_drv = None
        self.dut = Dut(self.hw, 'dut')
        self.groups = {(): self.dut}
        self.wires = {}
        self.objs = {}
        self.nodes = {n['id']: n for n in desc['nodes']}
        # consumers per signal (group paths), computed once
        self.cons = {}
        for n in desc['nodes']:
            for r in n['ins']:
                self.cons.setdefault(r, []).append(tuple(n['grp']))
        self.outset = set(desc['outputs'])
        self._pending_drv = []

    def group(self, path):
        path = tuple(path)
        g = self.groups.get(path)
        if g is None:
            parent = self.group(path[:-1])
            g = Grp(parent, path[-1])
            self.groups[path] = g
            drv = self.desc.get('group_driver', {}).get('/'.join(path))
            if drv is not None:
                self._pending_drv.append((g, drv))     # attached once the current wire exists
        return g

    def _flush_drivers(self):
        while self._pending_drv:
            g, drv = self._pending_drv.pop(0)
            self._attach_driver(g, drv)

    def _attach_driver(self, g, drv):
        """clock domain seam (C05 perm_drivers, C10): the group gets its own ClockDriver, optionally
        gated by an enable wire; 'idiom' = 'gatedclock' routes the enable through a GatedClock block"""
        en = self.wire(drv['en']) if drv.get('en') else None
        if drv.get('share') is not None:
            # one ClockDriver object placed on several blocks (a.clockDriver = g; b.clockDriver = g)
            shared = getattr(self, '_shared_drv', None)
            if shared is None:
                shared = self._shared_drv = {}
            if drv['share'] not in shared:
                shared[drv['share']] = py4hw.ClockDriver(drv['name'], base=self.hw.clockDriver, enable=en)
            g.clockDriver = shared[drv['share']]
            return
        if drv.get('wire'):
            # a second clock domain with its own clock wire (only meaningful for Verilog generation: the simulator clocks every domain)
            g.clockDriver = py4hw.ClockDriver(drv['name'], base=self.hw.clockDriver, enable=en, wire=self.wire(drv['wire']))
            return
        if en is not None and drv.get('idiom') == 'gatedclock':
            from py4hw.logic.clock import GatedClock
            enout = g.wire('gclk_en', en.getWidth())
            d = py4hw.ClockDriver(drv['name'], base=self.hw.clockDriver, enable=enout)
            GatedClock(g, 'gclk', en, enout, d)
            g.clockDriver = d
        elif en is not None and drv.get('idiom') == 'clock_wire':
            # a generated clock: the wire that gates the domain is also declared as its clock wire (the idiom of
            # test/interactive/tb_VitisKernelPlatform.py); for the simulator the enable is what counts
            g.clockDriver = py4hw.ClockDriver(drv['name'], base=self.hw.clockDriver, enable=en, wire=en)
        elif en is not None and drv.get('idiom') == 'late_enable':
            d = py4hw.ClockDriver(drv['name'], base=self.hw.clockDriver)
            g.clockDriver = d
            d.enable = en               # enable attached after construction
        else:
            g.clockDriver = py4hw.ClockDriver(drv['name'], base=self.hw.clockDriver, enable=en)

    def _producer_path(self, ref):
        t = parse_ref(ref)
        if t[0] == 'i':
            return None
        return tuple(self.nodes[t[1]]['grp'])

    def wire(self, ref):
        w = self.wires.get(ref)
        if w is not None:
            return w
        width = self.sigw[ref]
        prod = self._producer_path(ref)
        cons = self.cons.get(ref, [])
        is_in = prod is None
        is_out = ref in self.outset
        name = (self.desc.get('names') or {}).get(ref, ref.replace('.', '_'))
        if is_in or is_out:
            owner_path = None          # owned by the HWSystem, visible as a Dut port
            w = self.hw.wire(name, width)
            if is_in:
                self.dut.addIn(name, w)
            else:
                self.dut.addOut(name, w)
            base = ()
        else:
            paths = [prod] + cons
            lca = paths[0]
            for p in paths[1:]:
                k = 0
                while k < len(lca) and k < len(p) and lca[k] == p[k]:
                    k += 1
                lca = lca[:k]
            base = lca
            w = self.group(base).wire(name, width)
        # ports on every group between the owner and the producer / consumers
        if prod is not None:
            for k in range(len(base) + 1, len(prod) + 1):
                self.group(prod[:k]).addOut(name, w)
        seen = set()
        for c in cons:
            for k in range(len(base) + 1, len(c) + 1):
                gp = c[:k]
                if gp in seen:
                    continue
                # a group that contains the producer already has the wire as an output port
                if prod is not None and prod[:k] == gp:
                    continue
                seen.add(gp)
                self.group(gp).addIn(name, w)
        self.wires[ref] = w
        return w

    def add_node(self, nid):
        n = self.nodes[nid]
        k = KINDS[n['kind']]
        parent = self.group(n['grp'])
        ins = [self.wire(r) for r in n['ins']]
        outs = [self.wire('n%d.%d' % (nid, j)) for j in range(len(n['ow']))]
        ins0, outs0 = list(ins), list(outs)
        with seams.quiet():
            obj = k.build(parent, (self.desc.get('inst_names') or {}).get(str(nid), 'u%d' % nid), ins, outs, n['p'])
        ins_after, outs_after = [id(w) for w in ins], [id(w) for w in outs]
        # ... and the caller is free to reuse its lists for something else afterwards: empty them, or go on
        # building the next, wider gate from the same list (append another wire, reorder)
        mode = nid % 3 if len(self.wires) <= 300 else 0      # (the search below is linear in the design: small designs only)
        extra = None
        if mode and ins0:
            w0 = ins0[0].getWidth()
            extra = next((w for r, w in sorted(self.wires.items()) if w.getWidth() == w0 and all(w is not x for x in ins0 + outs0)), None)
        if extra is not None:
            if mode == 2:
                ins.reverse()
            ins.append(extra)
        else:
            ins.clear()
        extra_o = None
        if mode and outs0:
            w0 = outs0[0].getWidth()
            extra_o = next((w for r, w in sorted(self.wires.items()) if w.getWidth() == w0 and all(w is not x for x in ins0 + outs0)), None)
        if extra_o is not None:
            outs.append(extra_o)
        else:
            outs.clear()
        if ins_after != [id(w) for w in ins0] or outs_after != [id(w) for w in outs0]:
            # the lists belong to the caller, who goes on using them (e.g. to wire the next block)
            raise Violation('caller-list-mutated', 'fn:%s:caller-list-reordered' % n['kind'], 0,
                            'constructor of %s changed the list of wires it was given' % n['kind'])
        self.objs[nid] = obj
        nd = (self.desc.get('node_driver') or {}).get(str(nid))
        if nd is not None:
            self._pending_drv.append((obj, nd))
        self._flush_drivers()
        return obj

    def build(self, order=None):
        for nid in (order if order is not None else self.desc['order']):
            if nid not in self.objs:
                self.add_node(nid)
        # inputs nobody reads still exist as ports
        for i in self.desc['inputs']:
            self.wire(i['name'])
        self._flush_drivers()
        drv = self.top_drv if self.top_drv is not None else self.hw.clockDriver
        if self.desc.get('top_enable') and drv.enable is None:
            drv.enable = self.wire(self.desc['top_enable'])
        return self

    def set_inputs(self, vec):
        for i, v in zip(self.desc['inputs'], vec):
            self.wires[i['name']].put(v)

    def values(self, refs=None):
        refs = refs if refs is not None else list(self.wires)
        return {r: self.wires[r].get() for r in refs if r in self.wires}


# =========================================================================== reference evaluator

class RefModel:
    """Pure-Python evaluation of a description: Kahn order over combinational dependencies,
    two-phase update of every sequential node from the pre-edge snapshot."""

    def __init__(self, desc):
        self.desc = desc
        self.sigw = sig_widths(desc)
        self.nodes = desc['nodes']
        self.kind = {n['id']: KINDS[n['kind']] for n in self.nodes}
        self.iw = {n['id']: [self.sigw[r] for r in n['ins']] for n in self.nodes}
        self.state = {n['id']: self.kind[n['id']].init(n['p'], self.iw[n['id']], n['ow']) for n in self.nodes}
        self.vals = {i['name']: 0 for i in desc['inputs']}
        for n in self.nodes:
            for k in range(len(n['ow'])):
                self.vals['n%d.%d' % (n['id'], k)] = 0
        self.order = self._kahn()
        self.unspec = set()

    def _kahn(self):
        byid = {n['id']: n for n in self.nodes}
        indeg = {}
        succ = {}
        for n in self.nodes:
            nid = n['id']
            indeg.setdefault(nid, 0)
            if not self.kind[nid].mealy:
                continue
            for r in n['ins']:
                t = parse_ref(r)
                if t[0] == 'n':
                    indeg[nid] += 1
                    succ.setdefault(t[1], []).append(nid)
        ready = sorted(k for k, v in indeg.items() if v == 0)
        out = []
        while ready:
            x = ready.pop(0)
            out.append(byid[x])
            for s in succ.get(x, []):
                indeg[s] -= 1
                if indeg[s] == 0:
                    ready.append(s)
        if len(out) != len(self.nodes):
            raise ValueError('combinational cycle in description')
        return out

    def set_inputs(self, vec):
        for i, v in zip(self.desc['inputs'], vec):
            self.vals[i['name']] = M(v, i['w'])

    def settle(self):
        vals = self.vals
        for n in self.order:
            nid = n['id']
            k = self.kind[nid]
            iv = [vals[r] for r in n['ins']] if k.mealy else None
            if nid in self.unspec or (iv is not None and None in iv):
                o = [None] * len(n['ow'])       # unspecified (e.g. downstream of a division by zero)
            else:
                try:
                    o = k.outs(n['p'], self.state[nid], iv, self.iw[nid], n['ow'])
                except NotImplementedError:
                    o = [None] * len(n['ow'])   # block without a catalogue model: only twin-based oracles apply
                    self.unspec.add(nid)
            for j, v in enumerate(o):
                vals['n%d.%d' % (nid, j)] = v
        return vals

    def edge(self, enabled=None):
        """one clock edge: every sequential node computes its next state from the pre-edge
        values; `enabled` (set of node ids or None) restricts which nodes see the edge"""
        vals = self.vals
        new = {}
        for n in self.nodes:
            nid = n['id']
            k = self.kind[nid]
            if not k.seq:
                continue
            if enabled is not None and nid not in enabled:
                continue
            iv = [vals[r] for r in n['ins']]
            if nid in self.unspec and None not in iv and n['kind'] == 'Reg' and not n['p'].get('en'):
                self.unspec.discard(nid)        # an always-enabled register forgets an unspecified value at the next edge
                self.state[nid] = k.init(n['p'], self.iw[nid], n['ow'])
            if None in iv or nid in self.unspec:
                self.unspec.add(nid)            # sticky: the state itself is no longer specified
                continue
            new[nid] = k.nxt(n['p'], self.state[nid], iv, self.iw[nid], n['ow'])
        self.state.update(new)
        return self.settle()


# =========================================================================== stimulus

def gen_vector(rng, inputs, prev=None):
    """boundary-biased input vector; with prev, sometimes hold or flip everything (toggling).  Correlated patterns: all
    inputs at one extreme except (at most) one; one input a copy of another of the same width, possibly with one bit
    flipped (near-equal operands: the deciding bit of a comparison / reduction is anywhere, also at the very top)"""
    vec = []
    for k, i in enumerate(inputs):
        w = i['w']
        full = (1 << w) - 1
        r = rng.random()
        if prev is not None and r < 0.15:
            v = prev[k]
        elif prev is not None and r < 0.25:
            v = prev[k] ^ full
        elif r < 0.50:
            v = rng.choice([0, 1, full, full - 1, 1 << (w - 1), (1 << (w - 1)) - 1, (1 << (w - 1)) + 1 if w > 1 else 1])
            v &= full
        elif r < 0.58:
            # one bit set / one bit clear, anywhere
            v = (1 << rng.randrange(w)) if rng.random() < 0.5 else full ^ (1 << rng.randrange(w))
        else:
            v = rng.getrandbits(w)
        vec.append(v)
    n = len(vec)
    r = rng.random()
    if n >= 2 and r < 0.10:
        # every input at one extreme, except one
        hi = rng.random() < 0.5
        vec = [((1 << i['w']) - 1) if hi else 0 for i in inputs]
        if rng.random() < 0.8:
            k = rng.randrange(n)
            w = inputs[k]['w']
            vec[k] = rng.choice([vec[k] ^ (1 << rng.randrange(w)), rng.getrandbits(w), vec[k] ^ ((1 << w) - 1)])
    elif n >= 2 and r < 0.22:
        # near-equal operands
        k = rng.randrange(n)
        same = [j for j in range(n) if j != k and inputs[j]['w'] == inputs[k]['w']]
        if same:
            j = rng.choice(same)
            vec[k] = vec[j]
            if rng.random() < 0.6:
                vec[k] ^= 1 << rng.randrange(inputs[k]['w'])
    return vec


def update_poison(built):
    """Division / modulo by zero is documented as nondeterministic: the outputs of such a node,
    and everything downstream of it (sticky through state), are excluded from comparisons."""
    bad = getattr(built, 'poison', None)
    if bad is None:
        bad = built.poison = set()
    changed = True
    first = True
    while changed:
        changed = False
        for n in built.desc['nodes']:
            nid = n['id']
            if nid in bad:
                continue
            hit = False
            if first and 'div' in KINDS[n['kind']].tags:
                w = built.wires.get(n['ins'][1])
                if w is not None and w.get() == 0:
                    hit = True
                o = built.objs.get(nid)
                if o is not None and any(getattr(l, '_dsim_divzero', False) for l in o.allLeaves()):
                    hit = True          # a zero divisor was seen at some evaluation since construction (seams probe)
            if not hit:
                for r in n['ins']:
                    t = parse_ref(r)
                    if t[0] == 'n' and t[1] in bad:
                        hit = True
                        break
            if hit:
                bad.add(nid)
                changed = True
        first = False
    return bad


def compare(built, ref_vals, step, where, refs=None, sigprefix='mismatch', use_poison=True):
    """wire-for-wire comparison of the real system against reference values"""
    bad = update_poison(built) if use_poison else None
    for r, w in built.wires.items():
        if refs is not None and r not in refs:
            continue
        if bad and r[0] == 'n' and parse_ref(r)[1] in bad:
            continue
        exp = ref_vals.get(r)
        if exp is None:
            continue
        got = w.get()
        if got != exp:
            t = parse_ref(r)
            kind = built.nodes[t[1]]['kind'] if t[0] == 'n' else 'input'
            raise Violation(sigprefix, '%s:%s' % (sigprefix, kind), step,
                            '%s signal %s (%s) got %#x expected %#x' % (where, r, kind, got, exp))


# =========================================================================== twin (real blocks, harness-owned schedule)

class Twin:
    """The same description built a second time in canonical dataflow order and evaluated by
    the harness itself: the real leaves' propagate()/clock() are called in the harness's own
    Kahn order with a two-phase edge.  py4hw's Simulator is not involved, so this oracle is
    independent of the sorter and of the visit order, and a functional defect of a block
    (a C07/C08/C09 matter) cannot show up as a settling / atomicity alarm."""

    def __init__(self, desc):
        self.b = Built(desc).build(sorted(desc['order']))
        if any('simpeek' in KINDS[n['kind']].tags for n in desc['nodes']):
            # a block of the design asks for the system's simulator from inside clock(): in the real system that only
            # re-sorts an existing simulator; without one it would be constructed - and settle the netlist - in the
            # middle of the twin's edge. The twin's own simulator exists for that reason only, the harness never steps it.
            with seams.quiet():
                self.b.hw.getSimulator()
        leaves = self.b.hw.allLeaves()
        self.props = [l for l in leaves if l.isPropagatable()]
        self.clks = [l for l in leaves if l.isClockable()]
        self.order = self._kahn()
        # leaf -> description node (for clock-domain decisions taken by the harness)
        self.leaf_node = {}
        for nid, o in self.b.objs.items():
            for l in o.allLeaves():
                self.leaf_node[id(l)] = nid
        self.settle()

    def _kahn(self):
        idx = {id(o): i for i, o in enumerate(self.props)}
        indeg = [0] * len(self.props)
        succ = [[] for _ in self.props]
        for i, o in enumerate(self.props):
            for p in o.outPorts:
                if p.wire is None:
                    continue
                for sp in p.wire.getSinks():
                    j = idx.get(id(sp.parent))
                    if j is not None:
                        succ[i].append(j)
                        indeg[j] += 1
        ready = [i for i, d in enumerate(indeg) if d == 0]
        out = []
        while ready:
            i = ready.pop()
            out.append(self.props[i])
            for j in succ[i]:
                indeg[j] -= 1
                if indeg[j] == 0:
                    ready.append(j)
        if len(out) != len(self.props):
            raise ValueError('combinational cycle')
        return out

    def set_inputs(self, vec):
        self.b.set_inputs(vec)

    def settle(self):
        for o in self.order:
            o.propagate()

    def edge(self, enabled=None):
        assert not Wire.prepared
        for o in self.clks:
            if enabled is None or enabled(o):
                o.clock()
        Wire.settleAll()
        self.settle()

    def values(self):
        bad = update_poison(self.b)
        return {r: (None if (bad and r[0] == 'n' and parse_ref(r)[1] in bad) else w.get()) for r, w in self.b.wires.items()}


def deepen(desc, rng, levels, under=None):
    """nest the blocks of one group (default: a seeded one; () = the whole design) `levels` blocks deeper: a hierarchy far
    deeper than ordinary examples use.  Group-level settings (clock drivers) stay on the original group, `levels` above."""
    groups = sorted({tuple(n['grp'][:k]) for n in desc['nodes'] for k in range(0, len(n['grp']) + 1)})
    g = tuple(under) if under is not None else rng.choice(groups)
    ext = ['dp%d' % i for i in range(levels)]
    for n in desc['nodes']:
        if tuple(n['grp'][:len(g)]) == g:
            n['grp'] = list(g) + ext + list(n['grp'][len(g):])
    gd = desc.get('group_driver')
    if gd:
        pre = '/'.join(g)
        for k in sorted(gd):
            if pre == '' or k.startswith(pre + '/'):
                rest = k[len(pre) + 1:] if pre else k
                gd['/'.join(list(g) + ext + [rest])] = gd.pop(k)
    desc['deepened'] = [list(g), levels]
    return g


def bulk_design(n, seed, w=8):
    """a large, shallow combinational netlist (each block reads one or two earlier ones, mostly recent) instantiated in a
    shuffled order: thousands of leaves, so that an index field, a table or a counter inside the scheduler overflows.
    Generated from (n, seed) so that scenarios stay small."""
    import random as _r
    rng = _r.Random(seed)
    inputs = [{'name': 'i0', 'w': w}, {'name': 'i1', 'w': w}]
    nodes = []

    def src(j):
        if j < 2:
            return 'i%d' % j
        return 'n%d.0' % rng.randrange(max(0, j - 64) if rng.random() < 0.8 else 0, j)
    for j in range(n):
        k = rng.choice(['Buf', 'Not', 'And2', 'Xor2', 'Or2'])
        ins = [src(j)] if k in ('Buf', 'Not') else [src(j), src(j)]
        nodes.append({'id': j, 'kind': k, 'p': {}, 'ins': ins, 'ow': [w], 'grp': []})
    order = list(range(n))
    rng.shuffle(order)
    outs = ['n%d.0' % j for j in sorted(rng.sample(range(n), min(8, n)))]
    return {'inputs': inputs, 'nodes': nodes, 'outputs': outs, 'order': list(range(n))}, order


def bulk_modules(n, seed):
    """hundreds of instances of library blocks that get a module of their own per instance (counters, dividers, delay
    lines, ...) with seeded parameters, all on the same few input wires: a design with far more emitted modules than
    ordinary examples have (name tables, suffix schemes, created-structures lists)"""
    import random as _r
    rng = _r.Random(seed)
    pool = Pool(rng, max_inputs=3, maxw=8)
    pool.new_input(1)
    pool.new_input(4)
    nodes = []
    kinds = [KINDS[k] for k in ('ModuloCounter', 'ModuloCounter', 'ClockDivider', 'DelayLine', 'Counter', 'EdgeDetector', 'TReg')]
    for j in range(n):
        k = rng.choice(kinds)
        params, ins, ows = k.plan(rng, pool)
        nodes.append({'id': j, 'kind': k.name, 'p': params, 'ins': list(ins), 'ow': list(ows), 'grp': []})
    outs = ['n%d.%d' % (nd['id'], k) for nd in nodes for k in range(len(nd['ow']))]
    return {'inputs': pool.inputs, 'nodes': nodes, 'outputs': outs, 'order': list(range(n))}


def bulk_ring(n, w, seed):
    """a ring of n registers with seeded power-up values (no reset, no enable) plus a load mux at position 0"""
    import random as _r
    rng = _r.Random(seed)
    inputs = [{'name': 'i0', 'w': w}, {'name': 'i1', 'w': 1}]
    nodes = [{'id': 0, 'kind': 'Mux2', 'p': {}, 'ins': ['i1', 'n%d.0' % n, 'i0'], 'ow': [w], 'grp': []}]
    for i in range(1, n + 1):
        nodes.append({'id': i, 'kind': 'Reg', 'p': {'en': False, 'rs': False, 'rv': rng.getrandbits(w)},
                      'ins': ['n%d.0' % (i - 1)], 'ow': [w], 'grp': []})
    order = list(range(n + 1))
    rng.shuffle(order)
    return {'inputs': inputs, 'nodes': nodes, 'outputs': ['n%d.0' % n], 'order': list(range(n + 1)), 'ring': n}, order


def underscore_names(desc, rng):
    """instance and group names from a tiny pool of names with underscores ('a', 'a_b', 'b_a', ...), unique per parent:
    different blocks then have paths whose underscore-joined forms coincide ('a' / 'b' vs a sibling 'a_b')"""
    pool = ['a', 'b', 'a_b', 'b_a', 'a_a', 'b_b', 'a_b_a', 'b_a_b', 'ab', 'a_ab']
    used = {}                     # parent path -> names taken
    gmap = {}                     # old group path tuple -> new name

    def take(parent):
        u = used.setdefault(parent, set())
        c = [x for x in pool if x not in u]
        nm = rng.choice(c) if c else 'n%d' % len(u)
        u.add(nm)
        return nm
    paths = sorted({tuple(n['grp'][:k]) for n in desc['nodes'] for k in range(1, len(n['grp']) + 1)}, key=lambda p: (len(p), p))
    newpath = {(): ()}
    for p in paths:
        parent_new = newpath[p[:-1]]
        newpath[p] = parent_new + (take(parent_new),)
    inst = dict(desc.get('inst_names') or {})
    for n in desc['nodes']:
        n['grp'] = list(newpath[tuple(n['grp'])])
        inst[str(n['id'])] = take(tuple(n['grp']))
    # two blocks of one class but of different shape whose paths coincide once joined by '_': <top>/zq/b and <top>/zq_b
    by_kind = {}
    for n in desc['nodes']:
        by_kind.setdefault(n['kind'], []).append(n)
    pairs = [(x, y) for l in by_kind.values() for x in l for y in l
             if x['id'] < y['id'] and (x['ow'] != y['ow'] or len(x['ins']) != len(y['ins'])) and not x.get('guard') and not y.get('guard')]
    if pairs and rng.random() < 0.5:
        x, y = rng.choice(pairs)
        x['grp'] = ['zq']
        inst[str(x['id'])] = 'b'
        y['grp'] = []
        inst[str(y['id'])] = 'zq_b'
    desc['inst_names'] = inst
    gd = desc.get('group_driver')
    if gd:
        desc['group_driver'] = {'/'.join(newpath[tuple(k.split('/'))]): v for k, v in gd.items()}
    return desc

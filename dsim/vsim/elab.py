"""Elaboration: static self-consistency rules + flattening into a simulable Design."""
import sys

from .parser import (VElabError, KEYWORDS_2005, Num, Id, Concat, Index, PartSel, IdxPartSel,
                     Block, AssignStmt, IfStmt, CaseStmt, NullStmt, ForStmt, Decl, Param, ContAssign,
                     Always, Initial, Instance)
from .expr import (Const, Sym, Ctx, analyze, analyze_lvalue, const_value, const_int, gen)

KIND_RANK = {'assign': 0, 'comb': 1, 'edge': 2, 'initial': 3, 'port': 4}


class Signal(object):
    __slots__ = ('idx', 'path', 'width', 'kind', 'is_mem', 'depth', 'mem_lo', 'init')

    def __init__(self, idx, path, width, kind, is_mem=False, depth=0, mem_lo=0):
        self.idx = idx
        self.path = path
        self.width = width
        self.kind = kind
        self.is_mem = is_mem
        self.depth = depth
        self.mem_lo = mem_lo
        self.init = None        # (val, xmask) for variables with a declaration initialiser


class Proc(object):
    __slots__ = ('pid', 'kind', 'path', 'target', 'order', 'run', 'sens', 'selftrig', 'line', 'module')

    def __init__(self, kind, path, target, order, run, sens, line, module):
        self.pid = -1
        self.kind = kind
        self.path = path
        self.target = target
        self.order = order
        self.run = run
        self.sens = sens            # [(signal index, edge)] edge: 0 any, 1 pos, 2 neg
        self.selftrig = kind in ('assign', 'port')
        self.line = line
        self.module = module

    def describe(self):
        return '%s %s:%s (module %s line %s)' % (self.kind, self.path or '<top>', self.target,
                                                 self.module, self.line)


class Scope(object):
    def __init__(self, path, module):
        self.path = path
        self.module = module
        self.syms = {}
        self.params = {}
        self.children = {}

    def lookup(self, name):
        o = self.syms.get(name)
        if o is None:
            o = self.params.get(name)
        return o


class Design(object):
    def __init__(self):
        self.top = None
        self.top_name = None
        self.inputs = {}
        self.outputs = {}
        self.inouts = {}
        self.warnings = []
        self.signals = []
        self.procs = []
        self.fanout = []
        self.mem_idxs = []
        self._wseen = {}

    def warn(self, rule, module, name, detail):
        key = (rule, module, name)
        if key not in self._wseen:
            self._wseen[key] = True
            self.warnings.append((rule, module, name, detail))

    def resolve(self, hier_name):
        """hierarchical name -> (Signal, Sym)"""
        parts = hier_name.split('.')
        sc = self.top
        for p in parts[:-1]:
            if p not in sc.children:
                raise KeyError("no instance '%s' in '%s'" % (p, sc.path or self.top_name))
            sc = sc.children[p]
        sym = sc.syms.get(parts[-1])
        if sym is None:
            raise KeyError("no signal '%s' in '%s'" % (parts[-1], sc.path or self.top_name))
        return self.signals[sym.sig], sym

    def signal_names(self):
        out = []

        def walk(sc):
            for n in sc.syms:
                out.append((sc.path + '.' + n) if sc.path else n)
            for c in sc.children.values():
                walk(c)
        walk(self.top)
        return out


def _join(path, name):
    return path + '.' + name if path else name


# --------------------------------------------------------------------------- statements


class _PCtx(object):
    """Per-process compile context."""

    def __init__(self, scope_lookup, where):
        self.cx = Ctx(scope_lookup, False, where)
        self.writes = []        # [(Sym, mask|None, status, line)]
        self.first_target = None


def _compile_assign_core(lv, rhs_t):
    W = max(lv.width, rhs_t.w)
    f = gen(rhs_t, W, rhs_t.s)
    m = (1 << lv.width) - 1
    return f, m


def compile_stmt(s, pc):
    cx = pc.cx
    if isinstance(s, NullStmt):
        return None
    if isinstance(s, Block):
        fs = [f for f in (compile_stmt(x, pc) for x in s.stmts) if f is not None]
        if not fs:
            return None
        if len(fs) == 1:
            return fs[0]
        fs = tuple(fs)

        def blk(st):
            for f in fs:
                f(st)
        return blk
    if isinstance(s, AssignStmt):
        lv = analyze_lvalue(s.lhs, cx)
        for sym, mask, status in lv.targets:
            pc.writes.append((sym, mask, status, s.line))
            if pc.first_target is None:
                pc.first_target = sym.name
        rt = analyze(s.rhs, cx)
        f, m = _compile_assign_core(lv, rt)
        if s.blocking:
            if lv.simple is not None:
                sig = lv.simple[0]

                def ba(st):
                    v, x = f(st)
                    st.write_sig(sig, v & m, x & m)
                return ba

            def bg(st):
                v, x = f(st)
                st.write_updates(lv.prepare(st, v & m, x & m))
            return bg

        def nb(st):
            v, x = f(st)
            st.nba_add(lv.prepare(st, v & m, x & m))
        return nb
    if isinstance(s, IfStmt):
        ct = analyze(s.cond, cx)
        cf = gen(ct, ct.w, ct.s)
        tf = compile_stmt(s.then, pc)
        ef = compile_stmt(s.els, pc) if s.els is not None else None

        def iff(st):
            if cf(st)[0]:
                if tf is not None:
                    tf(st)
            elif ef is not None:
                ef(st)
        return iff
    if isinstance(s, ForStmt):
        fi = compile_stmt(s.init, pc)
        ct = analyze(s.cond, cx)
        cf = gen(ct, ct.w, ct.s)
        fs = compile_stmt(s.step, pc)
        fb = compile_stmt(s.body, pc)

        def forloop(st):
            fi(st)
            n = 0
            while cf(st)[0]:
                if fb is not None:
                    fb(st)
                fs(st)
                n += 1
                if n > 1 << 20:
                    raise VElabError('unsupported', 'for loop does not terminate', s.line)
        return forloop
    if isinstance(s, CaseStmt):
        et = analyze(s.expr, cx)
        raw = []
        W = et.w
        S = et.s
        for labels, body in s.items:
            if labels is None:
                raw.append((None, body))
                continue
            lts = [(analyze(l, cx), l) for l in labels]
            for lt, _ in lts:
                W = max(W, lt.w)
                S = S and lt.s
            raw.append((lts, body))
        ef = gen(et, W, S)
        M = (1 << W) - 1
        items = []
        default = None
        kind = s.kind
        for lts, body in raw:
            bf = compile_stmt(body, pc)
            if lts is None:
                default = bf
                continue
            ls = []
            for lt, le in lts:
                wm = 0
                if isinstance(le, Num) and le.zmask:
                    wm = le.zmask
                    if le.xfill and W > lt.w and (le.zmask >> (lt.w - 1)) & 1:
                        wm |= M ^ ((1 << lt.w) - 1)
                ls.append((gen(lt, W, S), wm))
            items.append((tuple(ls), bf))
        items = tuple(items)

        def case(st):
            v, x = ef(st)
            for ls, bf in items:
                for lf, wm in ls:
                    lv_, lx = lf(st)
                    if kind == 'case':
                        hit = lv_ == v and lx == x
                    elif kind == 'casez':
                        care = M & ~wm
                        hit = not ((lv_ ^ v) & care) and not ((lx ^ x) & care)
                    else:
                        care = M & ~(wm | lx | x)
                        hit = not ((lv_ ^ v) & care)
                    if hit:
                        if bf is not None:
                            bf(st)
                        return
            if default is not None:
                default(st)
        return case
    raise VElabError('unsupported', 'statement %r' % (s,), getattr(s, 'line', None))


# --------------------------------------------------------------------------- elaborator


def _is_lvalue_form(e):
    if isinstance(e, Id):
        return True
    if isinstance(e, (Index, PartSel, IdxPartSel)):
        return _is_lvalue_form(e.base)
    if isinstance(e, Concat):
        return all(_is_lvalue_form(p) for p in e.parts)
    return False


def _uniq(seq):
    seen = {}
    out = []
    for s in seq:
        if s not in seen:
            seen[s] = True
            out.append(s)
    return out


class _ScopeState(object):
    """static-rule bookkeeping for one module instance"""

    def __init__(self):
        self.declared = {}      # name -> description
        self.drv = {}           # net name -> driven bit mask
        self.pw = {}            # var name -> [(always id, mask, line)]
        self.memw = {}          # memory name -> [always id]
        self.reads = {}         # names read
        self.maybe = {}         # names possibly driven from outside our knowledge (inout, blackbox)
        self.always_id = 0


class Elaborator(object):
    def __init__(self, modules, blackboxes=()):
        self.design = Design()
        self.mods = {}
        for m in modules:
            if m.name in KEYWORDS_2005:
                raise VElabError('reserved-word', "module name '%s' is a reserved word" % m.name, m.line)
            if m.name in self.mods:
                same = self.mods[m.name].text == m.text
                raise VElabError('module-redefined', "module '%s' is defined more than once (%s text)"
                                 % (m.name, 'identical' if same else 'different'), m.line)
            self.mods[m.name] = m
        self.blackboxes = frozenset(blackboxes)
        self.order = 0
        self.stack = []
        self.reached = {}

    # ---- helpers
    def new_signal(self, path, width, kind, is_mem=False, depth=0, mem_lo=0):
        d = self.design
        s = Signal(len(d.signals), path, width, kind, is_mem, depth, mem_lo)
        d.signals.append(s)
        if is_mem:
            d.mem_idxs.append(s.idx)
        return s

    def next_order(self):
        self.order += 1
        return self.order

    def declare(self, sc, ss, name, what, line):
        if name in KEYWORDS_2005:
            raise VElabError('reserved-word', "%s name '%s' is a reserved word" % (what, name), line)
        if name in ss.declared:
            raise VElabError('duplicate-declaration', "'%s' declared as %s is already declared as %s in module %s"
                             % (name, what, ss.declared[name], sc.module.name), line)
        ss.declared[name] = what

    def coerce_param(self, c, p, cx):
        if p.range is not None:
            msb = const_int(p.range[0], cx, 'parameter range')
            lsb = const_int(p.range[1], cx, 'parameter range')
            w = abs(msb - lsb) + 1
            v, x = c.val, c.xm
            if w > c.width and c.signed:
                hi = ((1 << w) - 1) ^ ((1 << c.width) - 1)
                sb = 1 << (c.width - 1)
                if x & sb:
                    x |= hi
                elif v & sb:
                    v |= hi
            m = (1 << w) - 1
            return Const(v & m, x & m, w, p.signed)
        if p.signed:
            return Const(c.val, c.xm, c.width, True)
        return c

    # ---- one module instance
    def elab_scope(self, mod, path, overrides, conn_syms):
        """overrides: [(name|None, Const)]; conn_syms: port name -> parent Sym (alias candidates)."""
        d = self.design
        if mod.name in self.stack:
            raise VElabError('recursive-instantiation', "module '%s' instantiates itself" % mod.name, mod.line)
        self.stack.append(mod.name)
        self.reached[mod.name] = True
        sc = Scope(path, mod)
        ss = _ScopeState()
        sc.state = ss
        where = ' in module %s' % mod.name
        ccx = Ctx(sc.lookup, True, where)
        # ---------------- parameters
        body_params = [it for it in mod.items if isinstance(it, Param)]
        overridable = [p for p in mod.params] + [p for p in body_params if not p.local]
        ov = {}
        pos = 0
        for name, c in overrides:
            if name is None:
                if pos >= len(overridable):
                    raise VElabError('parameter-unknown', 'too many positional parameter overrides for module %s'
                                     % mod.name, mod.line)
                name = overridable[pos].name
                pos += 1
            if name in ov:
                raise VElabError('parameter-duplicate', "parameter '%s' overridden twice" % name, mod.line)
            if c is not None:
                ov[name] = c
        known = {}
        for p in overridable:
            known[p.name] = True
        for name in ov:
            if name not in known:
                raise VElabError('parameter-unknown', "module %s has no overridable parameter '%s'"
                                 % (mod.name, name), mod.line)
        for p in list(mod.params) + body_params:
            self.declare(sc, ss, p.name, 'parameter', p.line)
            if p.name in ov and not p.local:
                c = ov[p.name]
            elif p.value is None:
                raise VElabError('parameter-no-value', "parameter '%s' of module %s has neither a default nor an override"
                                 % (p.name, mod.name), p.line)
            else:
                c = const_value(p.value, ccx)
            sc.params[p.name] = self.coerce_param(c, p, ccx)
        # ---------------- ports
        aliased = {}
        for p in mod.ports:
            self.declare(sc, ss, p.name, '%s port' % p.direction, p.line)
            msb = lsb = 0
            if p.range is not None:
                msb = const_int(p.range[0], ccx, 'port range')
                lsb = const_int(p.range[1], ccx, 'port range')
            w = abs(msb - lsb) + 1
            if p.is_reg and p.direction != 'output':
                raise VElabError('bad-port', "%s port '%s' cannot be a reg" % (p.direction, p.name), p.line)
            kind = 'var' if p.is_reg else 'net'
            sig = None
            ps = conn_syms.get(p.name)
            if ps is not None and ps.width == w and not ps.is_mem and ps.sig >= 0:
                if p.direction == 'input':
                    sig = d.signals[ps.sig]
                elif kind == 'net' and ps.kind == 'net' and ps.direction != 'input':
                    sig = d.signals[ps.sig]
            if sig is None:
                sig = self.new_signal(_join(path, p.name), w, kind)
            else:
                aliased[p.name] = True
            sym = Sym(p.name, kind, p.direction, sig.idx, w, p.signed, msb, lsb, p.line, scalar=p.range is None)
            sc.syms[p.name] = sym
            if p.init is not None:
                if not p.is_reg:
                    raise VElabError('bad-port', "initialiser on non-reg port '%s'" % p.name, p.line)
                c = const_value(p.init, ccx)
                sig.init = self._fit(c, w)
            if p.direction == 'input':
                ss.drv[p.name] = (1 << w) - 1
            elif p.direction == 'inout':
                ss.maybe[p.name] = True
        sc.aliased = aliased
        # ---------------- declarations
        extra_assigns = []
        for it in mod.items:
            if isinstance(it, Decl):
                self.elab_decl(sc, ss, it, ccx, extra_assigns)
            elif isinstance(it, Instance):
                self.declare(sc, ss, it.name, 'instance', it.line)
        # ---------------- behaviour
        for it in extra_assigns:
            self.elab_assign(sc, ss, it)
        for it in mod.items:
            if isinstance(it, ContAssign):
                self.elab_assign(sc, ss, it)
            elif isinstance(it, Always):
                self.elab_always(sc, ss, it)
            elif isinstance(it, Initial):
                self.elab_initial(sc, ss, it)
            elif isinstance(it, Instance):
                self.elab_instance(sc, ss, it)
        self.finish_scope(sc, ss)
        self.stack.pop()
        return sc

    @staticmethod
    def _fit(c, w):
        v, x = c.val, c.xm
        if w > c.width and c.signed:
            hi = ((1 << w) - 1) ^ ((1 << c.width) - 1)
            sb = 1 << (c.width - 1)
            if x & sb:
                x |= hi
            elif v & sb:
                v |= hi
        m = (1 << w) - 1
        return (v & m & ~x, x & m)

    def elab_decl(self, sc, ss, it, ccx, extra_assigns):
        for name, arr, init, line in it.names:
            self.declare(sc, ss, name, it.kind, line)
            if it.kind == 'integer':
                msb, lsb, w, signed = 31, 0, 32, True
            else:
                msb = lsb = 0
                if it.range is not None:
                    msb = const_int(it.range[0], ccx, 'range')
                    lsb = const_int(it.range[1], ccx, 'range')
                w = abs(msb - lsb) + 1
                signed = it.signed
            kind = 'net' if it.kind == 'wire' else 'var'
            if arr is not None:
                if kind == 'net':
                    raise VElabError('unsupported', "net array '%s'" % name, line)
                a = const_int(arr[0], ccx, 'array bound')
                b = const_int(arr[1], ccx, 'array bound')
                depth = abs(a - b) + 1
                sig = self.new_signal(_join(sc.path, name), w, kind, True, depth, min(a, b))
                sc.syms[name] = Sym(name, kind, None, sig.idx, w, signed, msb, lsb, line,
                                    True, a, b, it.kind == 'integer')
                continue
            sig = self.new_signal(_join(sc.path, name), w, kind)
            sc.syms[name] = Sym(name, kind, None, sig.idx, w, signed, msb, lsb, line,
                                is_integer=it.kind == 'integer', scalar=(it.kind != 'integer' and it.range is None))
            if init is not None:
                if kind == 'net':
                    extra_assigns.append(ContAssign(Id(name, line=line), init, line=line))
                else:
                    c = const_value(init, ccx)
                    sig.init = self._fit(c, w)

    # ---- static rule helpers
    def add_driver(self, sc, ss, sym, mask, what, line):
        mn = sc.module.name
        if sym.is_mem or sym.kind != 'net':
            raise VElabError('wrong-assignment-kind', "%s drives '%s', which is a variable (reg/integer), in module %s"
                             % (what, sym.name, mn), line)
        if sym.direction == 'input':
            if what == 'assign':
                raise VElabError('assign-to-input', "assign to input port '%s' in module %s" % (sym.name, mn), line)
            raise VElabError('multiple-drivers', "%s drives input port '%s' in module %s" % (what, sym.name, mn), line)
        if sym.direction == 'inout':
            ss.maybe[sym.name] = True
            return
        old = ss.drv.get(sym.name, 0)
        if old & mask:
            raise VElabError('multiple-drivers', "net '%s' in module %s has more than one driver on bits mask 0x%x (%s)"
                             % (sym.name, mn, old & mask, what), line)
        ss.drv[sym.name] = old | mask

    def note_reads(self, ss, cx):
        for n in cx.read_names:
            ss.reads[n] = True

    def sens_of(self, cx):
        return [(i, 0) for i in _uniq(cx.reads)]

    def add_proc(self, kind, sc, target, run, sens, line):
        p = Proc(kind, sc.path, target or '', self.next_order(), run, sens, line, sc.module.name)
        self.design.procs.append(p)
        return p

    # ---- items
    def elab_assign(self, sc, ss, it):
        where = ' in module %s' % sc.module.name
        pc = _PCtx(sc.lookup, where)
        lv = analyze_lvalue(it.lhs, pc.cx)
        for sym, mask, status in lv.targets:
            if sym.is_mem or sym.kind != 'net':
                self.add_driver(sc, ss, sym, 0, 'assign', it.line)
            if status == 'variable':
                raise VElabError('bad-lvalue', "variable index on the left side of assign to '%s'" % sym.name, it.line)
            if status == 'outside':
                raise VElabError('select-out-of-range', "assign target select of '%s' is entirely out of range [%d:%d]"
                                 % (sym.name, sym.msb, sym.lsb), it.line)
            self.add_driver(sc, ss, sym, mask, 'assign', it.line)
        rt = analyze(it.rhs, pc.cx)
        self.note_reads(ss, pc.cx)
        f, m = _compile_assign_core(lv, rt)
        run = _make_assign_run(lv, f, m)
        self.add_proc('assign', sc, lv.targets[0][0].name, run, self.sens_of(pc.cx), it.line)

    def check_proc_writes(self, sc, ss, pc, aid):
        mn = sc.module.name
        for sym, mask, status, line in pc.writes:
            if sym.kind != 'var':
                what = 'input port' if sym.direction == 'input' else 'net'
                raise VElabError('wrong-assignment-kind', "procedural assignment to %s '%s' in module %s"
                                 % (what, sym.name, mn), line)
            if aid is None:
                continue
            if sym.is_mem:
                ss.memw.setdefault(sym.name, []).append(aid)
            else:
                ss.pw.setdefault(sym.name, []).append((aid, mask if mask is not None else (1 << sym.width) - 1, line))

    def elab_always(self, sc, ss, it):
        where = ' in module %s' % sc.module.name
        pc = _PCtx(sc.lookup, where)
        body = compile_stmt(it.body, pc) or (lambda st: None)
        ss.always_id += 1
        self.check_proc_writes(sc, ss, pc, ss.always_id)
        self.note_reads(ss, pc.cx)
        if it.sens == '*':
            self.add_proc('comb', sc, pc.first_target, body, self.sens_of(pc.cx), it.line)
            return
        sens = []
        for edge, name in it.sens:
            o = sc.lookup(name)
            if o is None:
                raise VElabError('undeclared-identifier', "identifier '%s' in event control is not declared%s"
                                 % (name, where), it.line)
            if isinstance(o, Const) or o.is_mem:
                raise VElabError('bad-event-control', "'%s' cannot be used in an event control" % name, it.line)
            ss.reads[name] = True
            sens.append((o.sig, {'any': 0, 'pos': 1, 'neg': 2}[edge]))
        self.add_proc('edge', sc, pc.first_target, body, sens, it.line)

    def elab_initial(self, sc, ss, it):
        pc = _PCtx(sc.lookup, ' in module %s' % sc.module.name)
        body = compile_stmt(it.body, pc) or (lambda st: None)
        self.check_proc_writes(sc, ss, pc, None)
        self.note_reads(ss, pc.cx)
        self.add_proc('initial', sc, pc.first_target, body, [], it.line)

    def elab_instance(self, sc, ss, it):
        d = self.design
        mn = sc.module.name
        where = ' in module %s' % mn
        child_mod = self.mods.get(it.module)
        if child_mod is None:
            if it.module in self.blackboxes:
                cx = Ctx(sc.lookup, False, where)
                for pn, e, line in it.conns:
                    if e is None:
                        continue
                    analyze(e, cx)
                for n in cx.read_names:
                    ss.maybe[n] = True
                    ss.reads[n] = True
                for _, e in it.params:
                    if e is not None:
                        const_value(e, Ctx(sc.lookup, True, where))
                return
            raise VElabError('module-undefined', "module '%s' instantiated as '%s' in module %s is not defined"
                             % (it.module, it.name, mn), it.line)
        ports = {}
        for p in child_mod.ports:
            ports[p.name] = p
        conns = {}
        for pn, e, line in it.conns:
            if pn not in ports:
                raise VElabError('port-unknown', "module %s has no port '%s' (instance %s in module %s)"
                                 % (it.module, pn, it.name, mn), line)
            if pn in conns:
                raise VElabError('port-duplicate', "port '%s' connected twice on instance %s in module %s"
                                 % (pn, it.name, mn), line)
            conns[pn] = (e, line)
        for p in child_mod.ports:
            if p.direction == 'input' and (p.name not in conns or conns[p.name][0] is None):
                raise VElabError('port-unconnected', "input port '%s' of instance %s (%s) in module %s is not connected"
                                 % (p.name, it.name, it.module, mn), it.line)
        # identifiers in connections must be declared before we descend
        conn_syms = {}
        for p in child_mod.ports:
            c = conns.get(p.name)
            if c is None or c[0] is None:
                continue
            e = c[0]
            if isinstance(e, Id):
                o = sc.lookup(e.name)
                if o is None:
                    raise VElabError('undeclared-identifier', "identifier '%s' is not declared%s" % (e.name, where), c[1])
                if isinstance(o, Sym):
                    conn_syms[p.name] = o
        pcx = Ctx(sc.lookup, True, where)
        overrides = []
        for name, e in it.params:
            overrides.append((name, None if e is None else const_value(e, pcx)))
        child = self.elab_scope(child_mod, _join(sc.path, it.name), overrides, conn_syms)
        sc.children[it.name] = child
        for p in child_mod.ports:
            c = conns.get(p.name)
            if c is None or c[0] is None:
                continue
            e, line = c
            csym = child.syms[p.name]
            what = "port '%s' of instance %s (%s)" % (p.name, it.name, it.module)
            if p.direction == 'input':
                pc = _PCtx(sc.lookup, where)
                rt = analyze(e, pc.cx)
                self.note_reads(ss, pc.cx)
                exempt = isinstance(e, Num) and e.plain
                if rt.w != csym.width and not exempt:
                    raise VElabError('width-mismatch', "%s is %d bits wide but is connected to a %d-bit expression in module %s"
                                     % (what, csym.width, rt.w, mn), line)
                if p.name in child.aliased:
                    continue
                W = max(csym.width, rt.w)
                f = gen(rt, W, rt.s)
                m = (1 << csym.width) - 1
                run = _make_sig_run(csym.sig, f, m)
                self.add_proc('port', sc, it.name + '.' + p.name, run, self.sens_of(pc.cx), line)
                continue
            # output / inout
            if not _is_lvalue_form(e):
                raise VElabError('port-not-lvalue', "%s %s must be connected to a net lvalue in module %s"
                                 % (p.direction, what, mn), line)
            pc = _PCtx(sc.lookup, where)
            lv = analyze_lvalue(e, pc.cx)
            self.note_reads(ss, pc.cx)
            for sym, mask, status in lv.targets:
                if status == 'variable':
                    raise VElabError('bad-lvalue', "variable index in the connection of %s" % what, line)
                if status == 'outside':
                    raise VElabError('select-out-of-range', "connection of %s selects outside '%s'" % (what, sym.name), line)
                if p.direction == 'inout':
                    if sym.is_mem or sym.kind != 'net':
                        raise VElabError('wrong-assignment-kind', "inout %s connected to variable '%s'" % (what, sym.name), line)
                    ss.maybe[sym.name] = True
                    ss.reads[sym.name] = True
                else:
                    self.add_driver(sc, ss, sym, mask, 'output ' + what, line)
            if lv.width != csym.width:
                raise VElabError('width-mismatch', "%s is %d bits wide but is connected to a %d-bit net expression in module %s"
                                 % (what, csym.width, lv.width, mn), line)
            if p.name in child.aliased:
                continue
            if p.direction == 'inout':
                raise VElabError('unsupported-inout', "inout %s must be connected to a plain net of equal width" % what, line)
            ci = csym.sig
            m = (1 << csym.width) - 1
            run = _make_assign_run(lv, (lambda i: (lambda st: st.S[i]))(ci), m)
            self.add_proc('port', sc, lv.targets[0][0].name, run, [(ci, 0)], line)

    def finish_scope(self, sc, ss):
        d = self.design
        mn = sc.module.name
        # a variable assigned from two different always blocks
        for name in ss.pw:
            acc = {}
            order = []
            for aid, mask, line in ss.pw[name]:
                if aid not in acc:
                    acc[aid] = 0
                    order.append(aid)
                acc[aid] |= mask
            seen = 0
            for aid in order:
                if acc[aid] & seen:
                    raise VElabError('multiple-drivers', "variable '%s' in module %s is assigned from more than one always block"
                                     % (name, mn), ss.pw[name][0][2])
                seen |= acc[aid]
        for name in ss.memw:
            if len(_uniq(ss.memw[name])) > 1:
                d.warn('multi-writer-memory', mn, name, "memory '%s' is written from %d always blocks"
                       % (name, len(_uniq(ss.memw[name]))))
        for name, sym in sc.syms.items():
            if sym.kind != 'net' or sym.direction == 'input' or name in ss.maybe:
                continue
            read = name in ss.reads or sym.direction == 'output'
            if not read:
                continue
            mask = ss.drv.get(name, 0)
            full = (1 << sym.width) - 1
            if mask == 0:
                d.warn('undriven-net', mn, name, "net '%s' in module %s is read but has no driver" % (name, mn))
            elif mask != full:
                d.warn('undriven-bits', mn, name, "net '%s' in module %s: bits 0x%x have no driver"
                       % (name, mn, full & ~mask))


def _make_assign_run(lv, f, m):
    if lv.simple is not None:
        sig = lv.simple[0]

        def run(st):
            v, x = f(st)
            st.write_sig(sig, v & m, x & m)
        return run

    def run2(st):
        v, x = f(st)
        st.write_updates(lv.prepare(st, v & m, x & m))
    return run2


def _make_sig_run(sig, f, m):
    def run(st):
        v, x = f(st)
        st.write_sig(sig, v & m, x & m)
    return run


def elaborate(modules, top_name, blackboxes=()):
    """Check the static rules and flatten the hierarchy below top_name into a Design."""
    old = sys.getrecursionlimit()
    if old < 20000:
        sys.setrecursionlimit(20000)
    try:
        el = Elaborator(modules, blackboxes)
        if top_name not in el.mods:
            raise VElabError('module-undefined', "top module '%s' is not defined" % top_name)
        d = el.design
        top = el.elab_scope(el.mods[top_name], '', [], {})
        # modules never reached from the top are not rule-checked; say so
        for name in el.mods:
            if name not in el.reached:
                d.warn('unreachable-module', name, name, "module '%s' is not instantiated below '%s' and was not checked"
                       % (name, top_name))
        d.top = top
        d.top_name = top_name
        for p in el.mods[top_name].ports:
            w = top.syms[p.name].width
            {'input': d.inputs, 'output': d.outputs, 'inout': d.inouts}[p.direction][p.name] = w
        procs = d.procs
        procs.sort(key=lambda p: (p.path, KIND_RANK[p.kind], p.target, p.order))
        d.fanout = [[] for _ in d.signals]
        for i, p in enumerate(procs):
            p.pid = i
            for sig, edge in p.sens:
                d.fanout[sig].append((i, edge))
        d.fanout = [tuple(f) for f in d.fanout]
        return d
    finally:
        sys.setrecursionlimit(old)

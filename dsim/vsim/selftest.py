"""Self-tests for vsim.  Run:  cd /verif && /venv/bin/python -m dsim.vsim.selftest

Sections: (a) IEEE sizing/sign examples  (b) x-propagation  (c) scheduling
          (d) determinism  (e) elaboration rules  (f) py4hw samples
Exit status 0 iff everything passes.
"""
import hashlib
import os
import random
import subprocess
import sys
import time

from . import (parse, elaborate, Sim, VError, VParseError, VElabError, VReservedWord,
               VSimOscillation)

RESULTS = []
VERBOSE = '-v' in sys.argv


def check(name, cond, info=''):
    RESULTS.append((name, bool(cond), info))
    if VERBOSE or not cond:
        print('%s %s %s' % ('ok  ' if cond else 'FAIL', name, info if not cond else ''))


def X(w):
    return (0, (1 << w) - 1)


def run_initial(decls, body, names, **kw):
    text = 'module t;\n%s\ninitial begin\n%s\nend\nendmodule\n' % (decls, body)
    s = Sim(elaborate(parse(text), 't'), **kw)
    return [s.peek(n) for n in names]


def expect_vals(name, decls, body, expected):
    names = list(expected)
    try:
        got = run_initial(decls, body, names)
    except Exception as e:      # noqa
        check(name, False, 'exception %r' % (e,))
        return
    for n, g in zip(names, got):
        e = expected[n]
        if isinstance(e, int):
            e = (e, 0)
        check('%s:%s' % (name, n), g == e, 'got %r expected %r' % (g, e))


def sv(v, w):
    return v & ((1 << w) - 1)


# ============================================================================ (a)

def section_a():
    D = 'integer intA; reg [15:0] regA; reg signed [15:0] regS;'
    expect_vals('a.std-5.5-1', D, "regA = -4'd12; intA = regA / 3;", {'regA': 65524, 'intA': 21841})
    expect_vals('a.std-5.5-2', D, "intA = -4'd12 / 3;", {'intA': 1431655761})
    expect_vals('a.std-5.5-3', D, "regA = -12 / 3;", {'regA': 65532})
    expect_vals('a.std-5.5-4', D, "regS = -12 / 3;", {'regS': sv(-4, 16)})
    expect_vals('a.std-5.5-5', D, "regS = -4'sd12 / 3;", {'regS': 1})
    expect_vals('a.std-5.1.3', 'integer intA; integer r1, r2; reg [15:0] regA;',
                "intA = -12 / 3; r1 = intA; regA = -4'd12; intA = -4'd12 / 3; r2 = regA;",
                {'r1': sv(-4, 32), 'intA': 1431655761, 'r2': 65524})
    # 5.4.2: carry lost / kept
    expect_vals('a.carry', 'reg [15:0] a, b, r1, r2;',
                "a = 16'hffff; b = 16'h0001; r1 = (a + b) >> 1; r2 = (a + b + 0) >> 1;",
                {'r1': 0, 'r2': 0x8000})
    # 5.4.2 second example: a*b self-determined inside concatenation-like context
    expect_vals('a.std-5.4.2-mult', 'reg [3:0] a; reg [5:0] b; reg [15:0] c; reg [15:0] r1; reg [9:0] r2; reg [15:0] r3;',
                "a = 4'hF; b = 6'hA; c = 16'd0; r1 = a * b; r2 = {a * b}; r3 = a * b + c; ",
                {'r1': 150, 'r2': 150 & 0x3f, 'r3': 150})
    expect_vals('a.mul-wide', 'reg [7:0] a, b; reg [15:0] r; reg [7:0] n; reg [15:0] r2;',
                "a = 200; b = 100; r = a * b; n = a * b; r2 = {a * b};",
                {'r': 20000, 'n': 20000 & 0xff, 'r2': 20000 & 0xff})
    # shifts
    expect_vals('a.ashr', 'reg [3:0] r1, r2; reg [7:0] r3, r4; reg signed [3:0] s; reg [7:0] r5;',
                "r1 = 4'b1001 >>> 1; r2 = $signed(4'b1001) >>> 1; r3 = $signed(4'b1001) >>> 1;"
                "r4 = 4'b1001 >>> 1; s = 4'b1001; r5 = s >>> 2;",
                {'r1': 0b0100, 'r2': 0b1100, 'r3': 0b11111100, 'r4': 0b00000100, 'r5': 0b11111110})
    expect_vals('a.shl', 'reg [7:0] a; reg [15:0] r1; reg [7:0] r2; reg [15:0] r3;',
                "a = 8'hff; r1 = a << 4; r2 = a << 4; r3 = {a << 4};",
                {'r1': 0x0ff0, 'r2': 0xf0, 'r3': 0x00f0})
    # signed / unsigned comparison
    expect_vals('a.cmp', 'reg [7:0] a; reg signed [7:0] s; reg c1, c2, c3, c4, c5, c6; reg [3:0] n;',
                "a = 8'hff; s = -1; n = 4'hf; c1 = s < 0; c2 = a < 0; c3 = s < a; c4 = $signed(a) < 0;"
                "c5 = (n == a); c6 = ($signed(n) == s);",
                {'c1': 1, 'c2': 0, 'c3': 0, 'c4': 1, 'c5': 0, 'c6': 1})
    expect_vals('a.cmp-width', "reg [3:0] n; reg [7:0] w; reg c1, c2;",
                "n = 4'hf; w = 8'h0f; c1 = (n == w); c2 = (n < 8'h10);", {'c1': 1, 'c2': 1})
    expect_vals('a.mixed-sign-ext', 'reg signed [7:0] s; reg [7:0] u; reg [15:0] r1, r2, r3;',
                "s = -2; u = 1; r1 = s + u; r2 = s + $signed(u); r3 = s;",
                {'r1': 0x00ff, 'r2': 0xffff, 'r3': 0xfffe})
    # replication / concatenation
    expect_vals('a.repl', "reg [7:0] a; reg [15:0] r1; reg [11:0] r2; reg [7:0] r3; reg [3:0] b;",
                "a = 8'ha5; b = 4'h9; r1 = {2{a}}; r2 = {a[3:0], {2{b}}}; r3 = {{4{b[3]}}, b};",
                {'r1': 0xa5a5, 'r2': 0x599, 'r3': 0xf9})
    expect_vals('a.zero-repl', "reg [7:0] r; reg [3:0] b;", "b = 4'h9; r = {{0{b}}, b};", {'r': 9})
    # ?: arm sizing: both arms are sized to the max / context
    expect_vals('a.cond', "reg c; reg [3:0] a; reg [7:0] b; reg [7:0] r1; reg [15:0] r2; reg signed [3:0] s; reg [7:0] r3;",
                "c = 1; a = 4'hf; b = 8'h01; r1 = c ? a : b; r2 = c ? a + 4'h1 : b; s = -1; r3 = c ? s : 4'sd0;",
                {'r1': 0x0f, 'r2': 0x10, 'r3': 0xff})
    expect_vals('a.cond-unsigned-arm', "reg c; reg signed [3:0] s; reg [7:0] r;",
                "c = 1; s = -1; r = c ? s : 4'd0;", {'r': 0x0f})
    # unary minus, modulus sign, power
    expect_vals('a.arith', "integer i1, i2, i3, i4, i5; reg [7:0] r;",
                "i1 = -7 / 2; i2 = -7 % 2; i3 = 7 % -2; i4 = 2 ** 10; i5 = -8'd1; r = -8'd1;",
                {'i1': sv(-3, 32), 'i2': sv(-1, 32), 'i3': 1, 'i4': 1024, 'i5': 0xffffffff, 'r': 255})
    # literals
    expect_vals('a.literals', "reg [15:0] r1, r2, r3; reg [39:0] r4; integer i; reg [7:0] r5;",
                "r1 = 'h_ff_f; r2 = 8'sb1000_0000; r3 = 3'sd7; r4 = 'h1_0000_0000; i = 'd3; r5 = 12'hABC;",
                {'r1': 0xfff, 'r2': 0xff80, 'r3': 0xffff, 'r4': 0x100000000, 'i': 3, 'r5': 0xBC})
    # selects
    expect_vals('a.select', "reg [7:0] a; reg [0:7] b; reg [8:1] c; reg [3:0] r1, r2, r3, r4, r5; reg r6; integer k; reg [0:0] s; reg r7;",
                "a = 8'hc5; b = 8'hc5; c = 8'hc5; r1 = a[7:4]; r2 = b[0:3]; r3 = c[4:1]; k = 4; r4 = a[k +: 4];"
                "r5 = a[k -: 4]; r6 = b[0]; s = 1; r7 = s[0];",
                {'r1': 0xc, 'r2': 0xc, 'r3': 0x5, 'r4': 0xc, 'r5': 0x2, 'r6': 1, 'r7': 1})
    expect_vals('a.lvalue', "reg [7:0] a; reg [3:0] h, l; reg [7:0] m [0:3]; reg [7:0] r; integer k;",
                "a = 0; a[3] = 1; a[7:6] = 2'b11; {h, l} = 8'h5a; k = 2; m[k] = 8'h77; r = m[2]; a[k +: 2] = 2'b01;",
                {'a': 0b11000100, 'h': 5, 'l': 0xa, 'r': 0x77})
    # unsized constants in concatenations are errors, not crashes
    try:
        run_initial('reg [39:0] r;', "r = {8'h1, 5};", ['r'])
        check('a.unsized-concat', False, 'accepted')
    except VElabError as e:
        check('a.unsized-concat', e.rule == 'unsized-in-concat', e.rule)
    # assignment truncation and extension into wider / narrower targets
    expect_vals('a.assign-ext', "reg signed [3:0] s; reg [7:0] r1; integer i; reg [3:0] r2;",
                "s = -3; r1 = s; i = s; r2 = 8'hab;", {'r1': 0xfd, 'i': sv(-3, 32), 'r2': 0xb})
    expect_vals('a.logical', "reg [3:0] a, b; reg r1, r2, r3, r4;",
                "a = 4'b0100; b = 0; r1 = a && b; r2 = a || b; r3 = !a; r4 = !b;",
                {'r1': 0, 'r2': 1, 'r3': 0, 'r4': 1})
    expect_vals('a.reduction', "reg [3:0] a; reg r1, r2, r3, r4, r5, r6;",
                "a = 4'b0111; r1 = &a; r2 = |a; r3 = ^a; r4 = ~&a; r5 = ~|a; r6 = ~^a;",
                {'r1': 0, 'r2': 1, 'r3': 1, 'r4': 1, 'r5': 0, 'r6': 0})
    expect_vals('a.precedence', "integer r1, r2, r3, r4; reg r5;",
                "r1 = 1 + 2 * 3; r2 = 1 << 2 + 1; r3 = 6 & 3 | 8; r4 = 5 - 2 - 1; r5 = 1 ? 0 : 1 ? 1 : 0;",
                {'r1': 7, 'r2': 8, 'r3': 10, 'r4': 2, 'r5': 0})
    # well-known sizing gotchas
    expect_vals('a.gotchas', "reg [3:0] a; reg [4:0] s; reg [7:0] r1, r2, r3, r4, r5; reg signed [3:0] sa; reg [7:0] m1, m2;"
                "reg c1, c2, c3, c4; reg [7:0] x, y; reg [1:0] b; reg [7:0] s1, s2;",
                "a = 4'b1111; s = a + 1'b1; r1 = ~a; sa = -1; r2 = sa + 1'b1; r3 = sa + 1'sb1; r4 = sa + 1; r5 = sa;"
                "m1 = $signed(4'b1100) * $signed(4'b0011); m2 = 4'b1100 * 4'b0011;"
                "x = 200; y = 100; c1 = (x + y > 8'd250); c2 = (x + y > 250); c3 = (x - y - y - y < 0); c4 = ($signed(x) < 0);"
                "b = 3; s1 = 8'h01 << (b + 1); s2 = 8'h01 << (b + 1'b1);",
                {'s': 0x10, 'r1': 0xf0, 'r2': 0x10, 'r3': 0xfe, 'r4': 0, 'r5': 0xff, 'm1': 0xf4, 'm2': 0x24,
                 'c1': 0, 'c2': 1, 'c3': 0, 'c4': 1, 's1': 0x10, 's2': 0x01})
    # py4hw idioms
    text = '''module t(input [7:0] a, input [7:0] b, output [7:0] r, output e, output [15:0] sx);
wire w_ci; wire [7:0] w_k;
assign w_ci = 0; assign w_k[7:0] = 90;
assign r = a + b + w_ci;
assign e = (a == 4)? 1 : 0;
assign sx = { { 8 { a[7] } }, a };
endmodule'''
    s = Sim(elaborate(parse(text), 't'))
    s.set('a', 0xf4)
    s.set('b', 0x10)
    s.settle()
    check('a.py4hw-idioms', s.get('r') == (4, 0) and s.get('e') == (0, 0) and s.get('sx') == (0xfff4, 0)
          and s.peek('w_k') == (90, 0), repr((s.get('r'), s.get('e'), s.get('sx'))))


# ============================================================================ (b)

def section_b():
    D = "reg [3:0] a, b; reg [3:0] r1, r2, r3, r4, r5, r6; reg c1, c2, c3, c4, c5, c6, c7;"
    init = "a = 4'b01xz; b = 4'b0011;"
    expect_vals('b.bitwise', D, init + "r1 = a & b; r2 = a | b; r3 = a ^ b; r4 = ~a; r5 = a ~^ b;",
                {'r1': (0b0000, 0b0011), 'r2': (0b0111, 0), 'r3': (0b0100, 0b0011),
                 'r4': (0b1000, 0b0011), 'r5': (0b1000, 0b0011)})
    expect_vals('b.arith', D, init + "r1 = a + b; r2 = b - a; r3 = a * b; r4 = b / a; r5 = -a; r6 = b / 0;",
                {'r1': X(4), 'r2': X(4), 'r3': X(4), 'r4': X(4), 'r5': X(4), 'r6': X(4)})
    expect_vals('b.mod-pow', D, init + "r1 = b % 0; r2 = b % a; r3 = a ** 2; r4 = 2 ** a;",
                {'r1': X(4), 'r2': X(4), 'r3': X(4), 'r4': X(4)})
    expect_vals('b.relational', D, init + "c1 = a < b; c2 = a >= b; c3 = (a == b); c4 = (a != b); c5 = (a === b);"
                "c6 = (a === 4'b01xz); c7 = (a !== b);",
                {'c1': X(1), 'c2': X(1), 'c3': 0, 'c4': 1, 'c5': 0, 'c6': 1, 'c7': 1})
    expect_vals('b.equality-x', D, "a = 4'b0x11; b = 4'b0011; c1 = (a == b); c2 = (a != b); c3 = (a == 4'b1x11);",
                {'c1': X(1), 'c2': X(1), 'c3': 0})
    expect_vals('b.reduction', D, init + "c1 = &a; c2 = |a; c3 = ^a; c4 = ~|a; b = 4'b11x1; c5 = &b; c6 = |4'b00x0; c7 = ~&a;",
                {'c1': 0, 'c2': 1, 'c3': X(1), 'c4': 0, 'c5': X(1), 'c6': X(1), 'c7': 1})
    expect_vals('b.logical', D, "a = 4'b00x0; b = 4'b0100; c1 = a && b; c2 = a || b; c3 = !a; c4 = a && 0; c5 = a || 0;"
                "c6 = !4'b1x00; c7 = 4'b1x00 && 1;",
                {'c1': X(1), 'c2': 1, 'c3': X(1), 'c4': 0, 'c5': X(1), 'c6': 0, 'c7': 1})
    expect_vals('b.shift', D, "a = 4'b01x1; b = 4'b00x1; r1 = a << 1; r2 = a >> 1; r3 = a << b; r4 = a >> b;"
                "r5 = $signed(4'bx100) >>> 1; r6 = $signed(4'b1x00) >>> 1;",
                {'r1': (0b1010, 0b0100), 'r2': (0b0010, 0b0001), 'r3': X(4), 'r4': X(4),
                 'r5': (0b0010, 0b1100), 'r6': (0b1100, 0b0010)})
    expect_vals('b.cond-merge', D, "c1 = 1'bx; a = 4'b1100; b = 4'b1010; r1 = c1 ? a : b; r2 = c1 ? a : a;"
                "r3 = 1'b1 ? a : 4'bxxxx; r4 = 1'b0 ? a : 4'bxx00; r5 = 4'b0x00 ? a : b; r6 = 4'b1x00 ? a : b;",
                {'r1': (0b1000, 0b0110), 'r2': 0b1100, 'r3': 0b1100, 'r4': (0, 0b1100),
                 'r5': (0b1000, 0b0110), 'r6': 0b1100})
    expect_vals('b.if-x', D, "c1 = 1'bx; if (c1) r1 = 1; else r1 = 2; if (!c1) r2 = 1; else r2 = 2; if (4'b1x00) r3 = 1; else r3 = 2;"
                "if (4'b0x00) r4 = 1; else r4 = 2; if (1'bz) r5 = 1; else r5 = 2;",
                {'r1': 2, 'r2': 2, 'r3': 1, 'r4': 2, 'r5': 2})
    expect_vals('b.case-x', D,
                "a = 4'b01xx; case (a) 4'b0100: r1 = 1; 4'b01xx: r1 = 2; default: r1 = 3; endcase\n"
                "a = 4'b0101; case (a) 4'b01xx: r2 = 1; 4'b0100, 4'b0101: r2 = 2; default: r2 = 3; endcase\n"
                "casez (a) 4'b1???: r3 = 1; 4'b01zz: r3 = 2; default: r3 = 3; endcase\n"
                "a = 4'bxxxx; case (a) 4'b0000: r4 = 1; default: r4 = 3; endcase\n"
                "casez (a) 4'b1???: r5 = 1; 4'b0???: r5 = 2; default: r5 = 3; endcase\n"
                "casex (a) 4'b1xxx: r6 = 1; default: r6 = 3; endcase",
                {'r1': 2, 'r2': 2, 'r3': 2, 'r4': 3, 'r5': 3, 'r6': 1})
    expect_vals('b.select-x', "reg [7:0] a; reg [1:0] k; reg r1, r2; reg [3:0] r3, r4; reg [7:0] m [0:3]; reg [7:0] r5, r6, r7; reg [7:0] w;",
                "a = 8'hff; k = 2'b1x; r1 = a[k]; r2 = a[9]; r3 = a[9:6]; r4 = a[k +: 4]; m[0] = 1; m[1] = 2; r5 = m[k]; r6 = m[3];"
                "w = 8'h00; w[k] = 1; m[k] = 8'h55; r7 = m[1];",
                {'r1': X(1), 'r2': X(1), 'r3': (0b0011, 0b1100), 'r4': X(4), 'r5': X(8), 'r6': X(8),
                 'w': 0, 'r7': 2})
    expect_vals('b.concat-x', "reg [3:0] a; reg [7:0] r;", "a = 4'b1x0z; r = {a, 4'b0011};", {'r': (0x83, 0x50)})
    expect_vals('b.uninit', "reg [3:0] a; integer i; reg [3:0] r; reg [3:0] z = 0; reg [3:0] r2;",
                "r = a + 1; r2 = z + 1;", {'a': X(4), 'i': X(32), 'r': X(4), 'r2': 1})
    got = run_initial("reg [3:0] a; reg [7:0] m [0:1]; reg [3:0] r; reg [7:0] r2;", "r = a + 1; r2 = m[1];", ['r', 'r2'],
                      zero_powerup=True)
    check('b.zero-powerup', got == [(1, 0), (0, 0)], repr(got))
    expect_vals('b.xfill', "reg [39:0] r1, r2; reg [39:0] r3;", "r1 = 'bx; r2 = 'h0x; r3 = 40'bz;",
                {'r1': X(40), 'r2': (0, 0xf), 'r3': X(40)})
    # bit-level fuzz of the 4-state tables against an independent per-bit reference
    AND = {'00': '0', '01': '0', '0x': '0', '10': '0', '11': '1', '1x': 'x', 'x0': '0', 'x1': 'x', 'xx': 'x'}
    OR = {'00': '0', '01': '1', '0x': 'x', '10': '1', '11': '1', '1x': '1', 'x0': 'x', 'x1': '1', 'xx': 'x'}
    XOR = {'00': '0', '01': '1', '0x': 'x', '10': '1', '11': '0', '1x': 'x', 'x0': 'x', 'x1': 'x', 'xx': 'x'}
    NOT = {'0': '1', '1': '0', 'x': 'x'}

    def to_val(bits):
        v = x = 0
        for ch in bits:
            v = (v << 1) | (ch == '1')
            x = (x << 1) | (ch == 'x')
        return (v, x)
    rr = random.Random(77)
    W = 6
    decl = 'reg [5:0] a, b, r_and, r_or, r_xor, r_xnor, r_not, r_mux; reg c; reg e_eq, e_ceq, r_ra, r_ro, r_rx;'
    bad = []
    for _ in range(150):
        a = ''.join(rr.choice('01x') for _ in range(W))
        b = ''.join(rr.choice('01x') for _ in range(W))
        body = ("a = 6'b%s; b = 6'b%s; c = 1'bx; r_and = a & b; r_or = a | b; r_xor = a ^ b; r_xnor = a ~^ b; r_not = ~a;"
                "r_mux = c ? a : b; e_eq = (a == b); e_ceq = (a === b); r_ra = &a; r_ro = |a; r_rx = ^a;" % (a, b))
        names = ['r_and', 'r_or', 'r_xor', 'r_xnor', 'r_not', 'r_mux', 'e_eq', 'e_ceq', 'r_ra', 'r_ro', 'r_rx']
        got = dict(zip(names, run_initial(decl, body, names)))
        ref = {
            'r_and': ''.join(AND[p + q] for p, q in zip(a, b)),
            'r_or': ''.join(OR[p + q] for p, q in zip(a, b)),
            'r_xor': ''.join(XOR[p + q] for p, q in zip(a, b)),
            'r_xnor': ''.join(NOT[XOR[p + q]] for p, q in zip(a, b)),
            'r_not': ''.join(NOT[p] for p in a),
            'r_mux': ''.join(p if (p == q and p != 'x') else 'x' for p, q in zip(a, b)),
            'e_ceq': '1' if a == b else '0',
        }
        if any(p != q and 'x' not in (p, q) for p, q in zip(a, b)):
            ref['e_eq'] = '0'
        elif 'x' in a + b:
            ref['e_eq'] = 'x'
        else:
            ref['e_eq'] = '1'
        acc_a, acc_o, acc_x = '1', '0', '0'
        for p in a:
            acc_a, acc_o, acc_x = AND[acc_a + p], OR[acc_o + p], XOR[acc_x + p]
        ref['r_ra'], ref['r_ro'], ref['r_rx'] = acc_a, acc_o, acc_x
        for n in names:
            if got[n] != to_val(ref[n]):
                bad.append((a, b, n, got[n], ref[n]))
    check('b.bitlevel-fuzz', not bad, repr(bad[:3]))
    # undriven net is x; x on a continuous assignment propagates
    text = '''module t(input a, output r, output u); wire floating; assign r = a & floating; assign u = a | floating; endmodule'''
    d = elaborate(parse(text), 't')
    s = Sim(d)
    s.set('a', 0)
    s.settle()
    r0 = (s.get('r'), s.get('u'))
    s.set('a', 1)
    s.settle()
    r1 = (s.get('r'), s.get('u'))
    check('b.undriven', r0 == ((0, 0), (0, 1)) and r1 == ((0, 1), (1, 0)), repr((r0, r1)))
    check('b.undriven-warning', [w[:3] for w in d.warnings] == [('undriven-net', 't', 'floating')], repr(d.warnings))


# ============================================================================ (c)

SWAP_NBA = '''module t(input clk, output [3:0] qa, output [3:0] qb);
reg [3:0] a = 1; reg [3:0] b = 2;
always @(posedge clk) a <= b;
always @(posedge clk) b <= a;
assign qa = a; assign qb = b;
endmodule'''

SWAP_BLK = SWAP_NBA.replace('<=', '=')

GATED = '''module top(input clk, input en, output [7:0] q);
wire gclk; wire eno;
reg [7:0] cnt = 0;
gate i_gate(.clk_in(clk), .clk_out(gclk), .enin(en), .enout(eno));
always @(posedge gclk) cnt <= cnt + 1;
assign q = cnt;
endmodule
module gate(input clk_in, output clk_out, input enin, output enout);
reg eq = 0;
always @(negedge clk_in) begin eq <= enin; end
assign enout = eq;
assign clk_out = enout & clk_in;
endmodule'''


def section_c():
    d = elaborate(parse(SWAP_NBA), 't')
    ok = True
    for seed in range(40):
        s = Sim(d, rng=random.Random(seed))
        s.set('clk', 0)
        s.settle()
        s.clock()
        if (s.get('qa'), s.get('qb')) != ((2, 0), (1, 0)):
            ok = False
        s.clock()
        if (s.get('qa'), s.get('qb')) != ((1, 0), (2, 0)):
            ok = False
    check('c.swap-nba', ok)
    d = elaborate(parse(SWAP_BLK), 't')
    outcomes = {}
    for seed in range(40):
        s = Sim(d, rng=random.Random(seed))
        s.set('clk', 0)
        s.settle()
        s.clock()
        outcomes[(s.get('qa')[0], s.get('qb')[0])] = True
    check('c.swap-blocking-race', sorted(outcomes) == [(1, 1), (2, 2)], repr(sorted(outcomes)))
    s = Sim(d)
    s.set('clk', 0)
    s.settle()
    s.clock()
    check('c.swap-blocking-default-order', (s.get('qa')[0], s.get('qb')[0]) == (2, 2))
    # always @* chain (declared in reverse order) settles, with blocking and with NBA
    text = '''module t(input [3:0] a, output [3:0] r);
reg [3:0] s1, s2, s3; reg [3:0] o; integer tmp;
always @(*) o = s3 + 1;
always @(*) s3 <= s2 + 1;
always @* begin tmp = s1; tmp = tmp + 1; s2 = tmp; end
always @(*) s1 = a + 1;
assign r = o;
endmodule'''
    d = elaborate(parse(text), 't')
    ok = True
    for seed in [None] + list(range(10)):
        s = Sim(d, rng=None if seed is None else random.Random(seed))
        for v in (3, 9, 15):
            s.set('a', v)
            s.settle()
            if s.get('r') != ((v + 4) & 15, 0):
                ok = False
    check('c.comb-chain', ok)
    # always @* runs at time 0 even with constant inputs only (documented leniency)
    s = Sim(elaborate(parse('module t(output reg [3:0] q); always @(*) q = 5; endmodule'), 't'))
    check('c.comb-time0', s.get('q') == (5, 0))
    # combinational loops oscillate
    for nm, text in (('assign', 'module t(input a, output r); wire w; assign w = ~w | a; assign r = w; endmodule'),
                     ('always', 'module t(input a, output reg r); reg p; always @(*) p = ~r & ~a; always @(*) r = p; endmodule'),
                     ('nba-self', 'module t(input a, output reg r); always @(*) r <= ~r & ~a; endmodule')):
        try:
            s = Sim(elaborate(parse(text), 't'))
            s.set('a', 1)           # forces a known value into the loop (x is a stable fixed point)
            s.settle()
            s.set('a', 0)
            s.settle()
            check('c.oscillation-' + nm, False, 'no exception: %r' % (s.get('r'),))
        except VSimOscillation:
            check('c.oscillation-' + nm, True)
    # the same loop is stable at x (x is a fixed point of ~) and when forced by the input
    s = Sim(elaborate(parse('module t(input a, output r); wire w; assign w = ~w | a; assign r = w; endmodule'), 't'))
    s.set('a', 0)
    s.settle()
    r0 = s.get('r')
    s.set('a', 1)
    s.settle()
    check('c.loop-stable', r0 == (0, 1) and s.get('r') == (1, 0))
    # a process does not retrigger itself through its own blocking writes
    s = Sim(elaborate(parse('module t(input [3:0] a, output reg [3:0] r); reg [3:0] t1;'
                            'always @(*) begin t1 = a; t1 = t1 + 1; r = t1; end endmodule'), 't'))
    s.set('a', 3)
    s.settle()
    check('c.no-self-trigger', s.get('r') == (4, 0) and s.stats['events'] <= 4, repr(s.stats))
    # gated clock counts only when enabled
    d = elaborate(parse(GATED), 'top')
    ok = True
    for seed in [None] + list(range(12)):
        s = Sim(d, rng=None if seed is None else random.Random(seed))
        s.set('clk', 0)
        s.set('en', 0)
        s.settle()
        exp = 0
        en_latched = 0
        rr = random.Random(99)
        for cyc in range(30):
            en = rr.getrandbits(1)
            s.set('en', en)
            s.settle()
            s.set('clk', 1)
            s.settle()
            if en_latched:
                exp += 1
            s.set('clk', 0)
            s.settle()
            en_latched = en
            if s.get('q') != (exp & 255, 0):
                ok = False
    check('c.gated-clock', ok and exp > 5)
    # edge table: posedge on 0->1, 0->x, x->1; not on 1->x, x->0
    text = '''module t(input c, output [3:0] p, output [3:0] n);
reg [3:0] pc = 0; reg [3:0] nc = 0;
always @(posedge c) pc <= pc + 1;
always @(negedge c) nc <= nc + 1;
assign p = pc; assign n = nc;
endmodule'''
    s = Sim(elaborate(parse(text), 't'))
    seq = [(0, 0), (1, 0), (0, 1), (0, 0), (0, 1), (1, 0), (0, 1), (1, 0), (0, 0)]   # x->0,0->1,1->x,x->0,0->x,x->1,1->x,x->1,1->0
    for v, x in seq:
        s.set('c', v, x)
        s.settle()
    check('c.edge-table', s.get('p') == (4, 0) and s.get('n') == (5, 0), repr((s.get('p'), s.get('n'))))
    # posedge a or posedge b (async reset idiom), NBA program order within one process
    text = '''module t(input clk, input rst, input [3:0] d, output [3:0] q);
reg [3:0] r;
always @(posedge clk or posedge rst) if (rst) r <= 0; else begin r <= d; r <= d + 1; end
assign q = r;
endmodule'''
    ok = True
    for seed in range(6):
        s = Sim(elaborate(parse(text), 't'), rng=random.Random(seed))
        s.set('clk', 0)
        s.set('rst', 0)
        s.set('d', 6)
        s.settle()
        s.set('rst', 1)
        s.settle()
        ok = ok and s.get('q') == (0, 0)
        s.set('rst', 0)
        s.settle()
        s.clock()
        ok = ok and s.get('q') == (7, 0)
    check('c.async-reset+nba-order', ok)
    # memories: synchronous write/read, read-during-write returns old data; async read wakes on write
    text = '''module t(input clk, input [1:0] ra, input [1:0] wa, input w, input [7:0] wd, output [7:0] rd, output [7:0] ard);
reg [7:0] mem [0:3]; reg [7:0] rr;
always @(posedge clk) begin if (w) mem[wa] <= wd; rr <= mem[ra]; end
assign rd = rr; assign ard = mem[ra];
endmodule'''
    s = Sim(elaborate(parse(text), 't'), rng=random.Random(3))
    for k, v in (('clk', 0), ('ra', 1), ('wa', 1), ('w', 1), ('wd', 0x42)):
        s.set(k, v)
    s.settle()
    a0 = s.get('ard')
    s.clock()
    a1 = (s.get('rd'), s.get('ard'), s.peek_mem('mem', 1))
    s.clock()
    check('c.memory', a0 == X(8) and a1 == (X(8), (0x42, 0), (0x42, 0)) and s.get('rd') == (0x42, 0), repr((a0, a1)))
    # clone: independent state, same design
    s = Sim(elaborate(parse(SWAP_NBA), 't'))
    s.set('clk', 0)
    s.settle()
    c = s.clone(random.Random(1))
    c.clock()
    check('c.clone', s.get('qa') == (1, 0) and c.get('qa') == (2, 0) and c.design is s.design)


# ============================================================================ (d)

DET = '''module top(input clk, input rst, input [7:0] din, output [7:0] o1, output [7:0] o2, output z);
wire [7:0] s0, s1, s2; wire [7:0] mixed;
stage #(.K(1)) u_a(.clk(clk), .rst(rst), .d(din), .q(s0));
stage #(.K(3)) u_b(.clk(clk), .rst(rst), .d(s0 ^ 8'h5a), .q(s1));
stage u_c(.clk(clk), .rst(rst), .d(s1 + s0), .q(s2));
assign mixed = (s0 & s1) | (s2 ^ din);
reg [7:0] acc; reg [7:0] acc2; integer n;
always @(posedge clk) if (rst) acc <= 0; else acc <= acc + mixed;
always @(posedge clk) begin n = acc2; if (rst) n = 0; else n = n + s2; acc2 <= n; end
reg [7:0] c1; reg [7:0] c2;
always @(*) c1 = acc ^ acc2;
always @(*) c2 <= c1 + s1;
assign o1 = c1; assign o2 = c2; assign z = (c1 == c2)? 1 : 0;
endmodule
module stage #(parameter K = 2) (input clk, input rst, input [7:0] d, output [7:0] q);
reg [7:0] r; wire [7:0] nx;
assign nx = d + K;
always @(posedge clk) if (rst == 1) r <= 0; else r <= nx;
assign q = r;
endmodule'''


def det_run(seed, cycles=40):
    d = elaborate(parse(DET), 'top')
    s = Sim(d, rng=random.Random(seed), trace=True)
    r = random.Random(1234)
    s.set('clk', 0)
    s.set('rst', 1)
    s.set('din', 0)
    s.settle()
    s.clock()
    s.set('rst', 0)
    outs = []
    for _ in range(cycles):
        s.set('din', r.getrandbits(8))
        s.settle()
        s.clock()
        outs.append((s.get('o1'), s.get('o2'), s.get('z')))
    h = hashlib.sha256(repr((s.trace, outs, [p.describe() for p in d.procs])).encode()).hexdigest()
    return h, outs, s.stats


def section_d():
    h1, o1, st1 = det_run(7)
    h2, o2, st2 = det_run(7)
    h3, o3, st3 = det_run(8)
    check('d.same-seed-same-trace', h1 == h2 and st1 == st2)
    check('d.other-seed-other-trace', h1 != h3)
    check('d.race-free-outputs-equal', o1 == o3)
    check('d.order-choices-counted', st1['order_choices'] > 100, repr(st1))
    hs = []
    for hseed in ('0', '1', '4242'):
        env = dict(os.environ)
        env['PYTHONHASHSEED'] = hseed
        out = subprocess.run([sys.executable, '-m', 'dsim.vsim.selftest', '--det-hash', '7'],
                             env=env, capture_output=True, text=True, cwd=os.getcwd())
        hs.append(out.stdout.strip())
    check('d.subprocess-hashseed-independent', hs[0] == hs[1] == hs[2] == h1, repr(hs + [h1]))


# ============================================================================ (e)

HIER = '''// hierarchy + parameters
module top #(parameter W = 8, parameter N = 2) (input clk, input [W-1:0] a, input [W-1:0] b, output [W-1:0] s, output [2*W-1:0] cat, output [W-1:0] dl);
localparam HALF = W / 2;
wire [W-1:0] sum; wire [HALF-1:0] lo;
adder #(.W(W)) i_add(.a(a), .b(b), .r(sum), .co());
assign s = sum; assign lo = sum[HALF-1:0];
assign cat = {a, b};
delay #(.W(W), .INIT(8'd3)) i_d(.clk(clk), .d(sum), .q(dl));
endmodule
module adder #(parameter W = 4) (input [W-1:0] a, input [W-1:0] b, output [W-1:0] r, output co);
wire [W:0] full;
assign full = a + b;
assign r = full[W-1:0];
assign co = full[W];
endmodule
module delay #(parameter W = 4, parameter [7:0] INIT = 0) (input clk, input [W-1:0] d, output reg [W-1:0] q = INIT);
(* keep *) reg [W-1:0] m;
always @(posedge clk) begin m <= d; q <= m; end
endmodule'''


def expect_rule(name, text, rule, top='t', blackboxes=(), cls=VElabError):
    try:
        elaborate(parse(text), top, blackboxes)
        check('e.' + name, False, 'accepted, expected ' + rule)
    except VError as e:
        check('e.' + name, e.rule == rule and isinstance(e, cls), 'got %s: %s' % (type(e).__name__, e))
    except Exception as e:     # noqa
        check('e.' + name, False, 'crashed %r' % (e,))


def section_e():
    d = elaborate(parse(HIER), 'top')
    check('e.positive-ports', d.inputs == {'clk': 1, 'a': 8, 'b': 8} and d.outputs == {'s': 8, 'cat': 16, 'dl': 8}
          and list(d.outputs) == ['s', 'cat', 'dl'], repr((d.inputs, d.outputs)))
    check('e.positive-warnings', d.warnings == [], repr(d.warnings))
    s = Sim(d, rng=random.Random(2))
    s.set('clk', 0)
    s.set('a', 200)
    s.set('b', 100)
    s.settle()
    check('e.positive-values', s.get('s') == (44, 0) and s.get('cat') == (200 * 256 + 100, 0) and s.get('dl') == (3, 0)
          and s.peek('i_add.co') == (1, 0) and s.peek('i_add.full') == (300, 0) and s.peek('lo') == (12, 0),
          repr((s.get('s'), s.get('cat'), s.get('dl'))))
    s.clock()
    s.clock()
    check('e.positive-delay', s.get('dl') == (44, 0))
    M = 'module t(input a, input [3:0] v, output r, output [3:0] o);'
    E = ' endmodule'
    SUB = ' module sub(input x, input [3:0] y, output z, output [3:0] w); assign z = x; assign w = y; endmodule'
    expect_rule('undeclared-rhs', M + 'assign r = a & nope; assign o = v;' + E, 'undeclared-identifier')
    expect_rule('undeclared-lhs', M + 'assign nope = a;' + E, 'undeclared-identifier')
    expect_rule('undeclared-conn', M + 'sub i(.x(a), .y(v), .z(r), .w(missing));' + E + SUB, 'undeclared-identifier')
    expect_rule('undeclared-proc', M + 'reg q; always @(*) q = undeclared_thing;' + E, 'undeclared-identifier')
    expect_rule('undeclared-sens', M + 'reg q; always @(posedge ck) q <= a;' + E, 'undeclared-identifier')
    expect_rule('duplicate-wire', M + 'wire w; wire w;' + E, 'duplicate-declaration')
    expect_rule('duplicate-port-body', M + 'wire r;' + E, 'duplicate-declaration')
    expect_rule('duplicate-port-port', 'module t(input a, input a); endmodule', 'duplicate-declaration')
    expect_rule('duplicate-reg-output', 'module t(output reg q); reg q; endmodule', 'duplicate-declaration')
    expect_rule('duplicate-instance', M + 'sub i(.x(a), .y(v), .z(r), .w(o)); sub i(.x(a), .y(v));' + E + SUB,
                'duplicate-declaration')
    expect_rule('duplicate-inst-vs-net', M + 'wire i; sub i(.x(a), .y(v), .z(r), .w(o));' + E + SUB, 'duplicate-declaration')
    expect_rule('duplicate-param', 'module t #(parameter P = 1) (input a); localparam P = 2; endmodule', 'duplicate-declaration')
    for nm, text in (('module', 'module table(input a); endmodule'),
                     ('port', 'module t(input wire, output r); endmodule'),
                     ('port2', 'module t(input a, output reg); endmodule'),
                     ('net', 'module t(input a); wire input; endmodule'),
                     ('net2', 'module t(input a); wire x, begin; endmodule'),
                     ('reg', 'module t(input a); reg time; endmodule'),
                     ('instance', 'module t(input a); sub case(.x(a)); endmodule module sub(input x); endmodule'),
                     ('modname-inst', 'module t(input a, output r); xor i_x(.a(a), .r(r)); endmodule'),
                     ('expr', 'module t(input a, output r); assign r = a & reg; endmodule'),
                     ('conn', 'module t(input a); sub i(.output(a)); endmodule module sub(input x); endmodule'),
                     ('target', 'module t(input a); reg q; always @(*) event = a; endmodule')):
        try:
            elaborate(parse(text), 't')
            check('e.reserved-' + nm, False, 'accepted')
        except VError as e:
            check('e.reserved-' + nm, e.rule == 'reserved-word' and isinstance(e, VElabError) and isinstance(e, VParseError),
                  '%s %s' % (type(e).__name__, e))
    # SystemVerilog-only keywords are legal Verilog-2005 identifiers
    try:
        elaborate(parse('module t(input logic, output bit); assign bit = logic; endmodule'), 't')
        check('e.sv-keywords-ok', True)
    except VError as e:
        check('e.sv-keywords-ok', False, str(e))
    expect_rule('module-undefined', M + 'nosuch i(.x(a));' + E, 'module-undefined')
    expect_rule('module-undefined-top', M + E, 'module-undefined', top='other')
    expect_rule('module-redefined', M + E + SUB + SUB, 'module-redefined')
    expect_rule('module-redefined-different', M + E + SUB + ' module sub(input q); endmodule', 'module-redefined')
    try:
        d = elaborate(parse(M + 'bb i(.p(a), .q(r), .v(o));' + E), 't', blackboxes=('bb',))
        check('e.blackbox', d.warnings == [], repr(d.warnings))
    except VError as e:
        check('e.blackbox', False, str(e))
    expect_rule('blackbox-undeclared', M + 'bb i(.p(zzz));' + E, 'undeclared-identifier', blackboxes=('bb',))
    expect_rule('port-unknown', M + 'sub i(.x(a), .y(v), .nope(r));' + E + SUB, 'port-unknown')
    expect_rule('port-unconnected-missing', M + 'sub i(.x(a), .z(r));' + E + SUB, 'port-unconnected')
    expect_rule('port-unconnected-empty', M + 'sub i(.x(a), .y(), .z(r));' + E + SUB, 'port-unconnected')
    expect_rule('port-duplicate', M + 'sub i(.x(a), .x(a), .y(v));' + E + SUB, 'port-duplicate')
    expect_rule('width-mismatch-in', M + 'sub i(.x(a), .y(a), .z(r));' + E + SUB, 'width-mismatch')
    expect_rule('width-mismatch-in-expr', M + 'sub i(.x(a), .y({v, a}), .z(r));' + E + SUB, 'width-mismatch')
    expect_rule('width-mismatch-out', M + 'sub i(.x(a), .y(v), .z(r), .w(o[2:0]));' + E + SUB, 'width-mismatch')
    expect_rule('width-mismatch-sized-const', M + "sub i(.x(a), .y(8'd1), .z(r));" + E + SUB, 'width-mismatch')
    try:
        elaborate(parse(M + 'sub i(.x(1), .y(3), .z(r), .w(o));' + E + SUB), 't')
        check('e.width-exempt-decimal', True)
    except VError as e:
        check('e.width-exempt-decimal', False, str(e))
    try:
        d = elaborate(parse(M + 'sub i(.x(a), .y(v), .z(), .w(o)); assign r = a;' + E + SUB), 't')
        check('e.open-output-ok', d.warnings == [], repr(d.warnings))
    except VError as e:
        check('e.open-output-ok', False, str(e))
    expect_rule('port-not-lvalue', M + 'sub i(.x(a), .y(v), .z(a & a));' + E + SUB, 'port-not-lvalue')
    expect_rule('output-to-reg', M + 'reg q; sub i(.x(a), .y(v), .z(q));' + E + SUB, 'wrong-assignment-kind')
    expect_rule('multiple-drivers-assign', M + 'assign r = a; assign r = ~a;' + E, 'multiple-drivers')
    expect_rule('multiple-drivers-bits', M + "assign o[2:0] = 0; assign o[2] = a; assign o[3] = a;" + E, 'multiple-drivers')
    expect_rule('multiple-drivers-inst', M + 'assign r = a; sub i(.x(a), .y(v), .z(r));' + E + SUB, 'multiple-drivers')
    expect_rule('multiple-drivers-2inst', M + 'sub i(.x(a), .y(v), .z(r)); sub j(.x(a), .y(v), .z(r));' + E + SUB,
                'multiple-drivers')
    expect_rule('multiple-drivers-input', M + 'wire k; sub i(.x(k), .y(v), .z(a));' + E + SUB, 'multiple-drivers')
    expect_rule('multiple-drivers-reg', M + 'reg q; always @(posedge a) q <= 1; always @(negedge a) q <= 0;' + E,
                'multiple-drivers')
    try:
        d = elaborate(parse(M + "assign o[1:0] = v[1:0]; assign o[3:2] = 2'b0; reg [1:0] q; reg k = 0;"
                            "always @(posedge a) q[0] <= 1; always @(posedge a) q[1] <= 0; initial k = 1; always @(posedge a) k <= 0;"
                            "assign r = q[0] & k;" + E), 't')
        check('e.disjoint-drivers-ok', d.warnings == [], repr(d.warnings))
    except VError as e:
        check('e.disjoint-drivers-ok', False, str(e))
    d = elaborate(parse(M + 'wire nc; wire [3:0] part; assign part[1:0] = 0; assign r = nc; assign o = part;' + E), 't')
    check('e.undriven-net-warning', [w[:3] for w in d.warnings] == [('undriven-net', 't', 'nc'), ('undriven-bits', 't', 'part')],
          repr(d.warnings))
    d = elaborate(parse('module t(input a, output r, output never); wire unused; assign r = a; endmodule'), 't')
    check('e.undriven-output-warning', [w[:3] for w in d.warnings] == [('undriven-net', 't', 'never')], repr(d.warnings))
    expect_rule('wrong-kind-assign-reg', M + 'reg q; assign q = a;' + E, 'wrong-assignment-kind')
    expect_rule('wrong-kind-assign-outreg', 'module t(input a, output reg r); assign r = a; endmodule', 'wrong-assignment-kind')
    expect_rule('wrong-kind-proc-wire', M + 'wire w; always @(*) w = a;' + E, 'wrong-assignment-kind')
    expect_rule('wrong-kind-proc-output', M + 'always @(*) r = a;' + E, 'wrong-assignment-kind')
    expect_rule('wrong-kind-proc-input', 'module t(input a, input b); always @(*) a = b; endmodule', 'wrong-assignment-kind')
    expect_rule('wrong-kind-initial', M + 'wire w; initial w = 0;' + E, 'wrong-assignment-kind')
    expect_rule('wrong-kind-mem', M + 'reg [3:0] m [0:1]; assign m[0] = v;' + E, 'wrong-assignment-kind')
    expect_rule('assign-to-input', 'module t(input a, input b); assign a = b; endmodule', 'assign-to-input')
    expect_rule('select-of-scalar-read', M + 'wire s; assign s = a; assign r = s[0];' + E, 'select-of-scalar')
    expect_rule('select-of-scalar-port', M + 'assign r = a[0];' + E, 'select-of-scalar')
    expect_rule('select-of-scalar-write', M + 'wire s; assign s[0] = a; assign r = s;' + E, 'select-of-scalar')
    expect_rule('select-out-of-range', M + 'assign o[7:4] = v;' + E, 'select-out-of-range')
    expect_rule('select-out-of-range-bit', M + 'assign o[4] = a;' + E, 'select-out-of-range')
    try:
        s = Sim(elaborate(parse(M + 'wire [0:0] s; assign s = a; assign r = s[0]; assign o = {v[5:3], a};' + E), 't'))
        s.set('a', 1)
        s.set('v', 0xf)
        s.settle()
        check('e.lenient-selects', s.get('r') == (1, 0) and s.get('o') == (0b0011, 0b1100), repr(s.get('o')))
    except VError as e:
        check('e.lenient-selects', False, str(e))
    expect_rule('parameter-unknown', M + 'p #(.Q(1)) i(.x(a));' + E + ' module p #(parameter P = 1)(input x); endmodule',
                'parameter-unknown')
    expect_rule('parameter-no-value', 'module t #(parameter P) (input [P-1:0] a); endmodule', 'parameter-no-value')
    try:
        d = elaborate(parse('module t(input [3:0] a, output [3:0] r); p #(.P(4)) i(.x(a), .y(r)); endmodule'
                            ' module p #(parameter P) (input [P-1:0] x, output [P-1:0] y); assign y = x; endmodule'), 't')
        check('e.parameter-no-default-overridden', True)
    except VError as e:
        check('e.parameter-no-default-overridden', False, str(e))
    expect_rule('non-constant-range', M + 'wire [a:0] w;' + E, 'non-constant')
    expect_rule('recursive', 'module t(input a); t i(.a(a)); endmodule', 'recursive-instantiation')
    d = elaborate(parse(M + 'reg [3:0] m [0:3]; always @(posedge a) m[0] <= v; always @(negedge a) m[1] <= v; assign o = m[0]; assign r = a;'
                        + E), 't')
    check('e.multi-writer-memory-warning', [w[0] for w in d.warnings] == ['multi-writer-memory'], repr(d.warnings))
    # for loops (memory initialisation idiom)
    d = elaborate(parse('module t(input [2:0] a, output [7:0] q);\nreg [7:0] mem [0:7];\ninteger i;\ninitial begin\n for (i=0; i<8; i=i+1) mem[i] = i*3;\nend\nassign q = mem[a];\nendmodule'), 't')
    sm = Sim(d)
    sm.set('a', 5)
    sm.settle()
    check('e.for-loop-init', sm.get('q') == (15, 0), repr(sm.get('q')))
    # parse errors carry a line number and do not crash
    for nm, text in (('while', 'module t(input a);\nreg q; integer i;\nalways @(*) while (i < 2) q = a;\nendmodule'),
                     ('delay', 'module t(input a);\nreg q;\nalways @(*) #1 q = a;\nendmodule'),
                     ('nonansi', 'module t(a);\ninput a;\nendmodule'),
                     ('function', 'module t(input a);\nfunction f; input x; f = x; endfunction\nendmodule'),
                     ('generate', 'module t(input a);\ngenerate\nendgenerate\nendmodule'),
                     ('garbage', 'module t(input a);\nassign = ;\nendmodule'),
                     ('positional', 'module t(input a);\nsub i(a);\nendmodule'),
                     ('unterminated', 'module t(input a);\nwire w;\n'),
                     ('string', 'module t(input a);\ninitial $display("x");\nendmodule'),
                     ('sysfunc', 'module t(input a, output r);\nassign r = $random;\nendmodule'),
                     ('badnum', "module t(input a, output r);\nassign r = 4'b12;\nendmodule")):
        try:
            parse(text)
            check('e.parse-' + nm, False, 'accepted')
        except VParseError as e:
            check('e.parse-' + nm, e.line is not None and e.line >= 1, repr(e))
        except Exception as e:     # noqa
            check('e.parse-' + nm, False, 'crashed %r' % (e,))
    # attributes and comments are ignored wherever they appear
    text = '''/* header */ module t( (* x *) input a, output reg r); // c
(* ramstyle = "no_rw_check" *) reg [1:0] m [0:1];
(* full_case, parallel_case *) always @( * ) (* foo *) begin : blk r = a; end
always @* ;
endmodule'''
    try:
        elaborate(parse(text), 't')
        check('e.attributes', True)
    except VError as e:
        check('e.attributes', False, str(e))


# ============================================================================ (f)

# py4hw texts that vsim must reject, with the expected rule
EXPECTED_REJECTED = {
    'SelectType': 'undeclared-identifier',
}
COMB_COMPARE = ('Add', 'AddWide', 'Sub', 'Mul', 'SignedMul', 'Div', 'Mux2', 'Mux4', 'And3', 'Or3', 'Xor3', 'Not', 'Equal',
                'Comparator', 'ShiftLeft', 'ShiftRight', 'ShiftRightArith', 'ShiftLeftConstant', 'SignExtend', 'ZeroExtend',
                'ConcatenateMSBF', 'ConcatenateLSBF', 'Range', 'Bit', 'BitsLSBF', 'Repeat', 'FPAdder_SP')
# compared with zero_powerup=True: the texts leave storage uninitialised (x per IEEE, 0 in py4hw)
SEQ_COMPARE_ZP = ('SynchronousMemory', 'CounterBehavioural', 'AutoReset', 'UARTSerializer', 'UARTDeserializer',
                  'Axi2ClkFSM')
SEQ_COMPARE = ('Reg', 'RegER', 'RegE', 'RegR', 'Counter', 'ModuloCounter', 'TReg', 'DelayLine', 'EdgeDetector_pos',
               'EdgeDetector_neg', 'EdgeDetector_both', 'ClockDividerReset')


def section_f():
    try:
        from .py4hw_samples import all_samples, gated_clock_text
        samples = all_samples()
    except ImportError as e:
        check('f.py4hw-import', False, repr(e))
        return
    rejected = []
    designs = {}
    for s in samples:
        if s.error:
            check('f.generate-' + s.name, False, 'py4hw failed to generate: ' + s.error)
            continue
        try:
            mods = parse(s.text)
        except VParseError as e:
            rejected.append((s.name, 'parse', e.rule, str(e)))
            check('f.parse-' + s.name, EXPECTED_REJECTED.get(s.name) == e.rule, str(e))
            continue
        try:
            designs[s.name] = elaborate(mods, 'Dut')
            check('f.elab-' + s.name, s.name not in EXPECTED_REJECTED, 'expected rejection did not happen')
        except VElabError as e:
            rejected.append((s.name, 'elab', e.rule, str(e)))
            check('f.elab-' + s.name, EXPECTED_REJECTED.get(s.name) == e.rule, str(e))
    byname = dict((s.name, s) for s in samples)
    disagreements = []
    for name in COMB_COMPARE:
        if name not in designs:
            check('f.compare-' + name, False, 'not elaborated')
            continue
        s = byname[name]
        sim = Sim(designs[name], rng=random.Random(11))
        psim = s.hw.getSimulator()
        r = random.Random(5)
        bad = 0
        for k in range(200):
            for n, w in s.ins:
                v = r.getrandbits(w)
                if k % 7 == 0:
                    v = r.choice([0, (1 << w) - 1, 1 << (w - 1), 1])
                s.wires[n].put(v)
                sim.set(n, v)
            psim.propagateAll()
            sim.settle()
            for n, w in s.outs:
                if name == 'Div' and s.wires['b'].get() == 0:
                    # known disagreement (README): IEEE says x for division by zero, py4hw's simulator
                    # returns a number.  vsim must say all-x.
                    if sim.get(n) != X(w):
                        bad += 1
                    continue
                if sim.get(n) != (s.wires[n].get(), 0):
                    bad += 1
                    if bad == 1:
                        disagreements.append((name, dict((n2, s.wires[n2].get()) for n2, _ in s.ins), n,
                                              s.wires[n].get(), sim.get(n)))
        check('f.compare-' + name, bad == 0, '%d mismatches, first: %r' % (bad, disagreements[-1:] if bad else ''))
    for name in SEQ_COMPARE + SEQ_COMPARE_ZP:
        if name not in designs:
            check('f.seq-compare-' + name, False, 'not elaborated')
            continue
        s = byname[name]
        sim = Sim(designs[name], rng=random.Random(12), zero_powerup=name in SEQ_COMPARE_ZP)
        sim.set('clk', 0)
        psim = s.hw.getSimulator()
        r = random.Random(6)
        bad = 0
        for k in range(200):
            for n, w in s.ins:
                v = r.getrandbits(w)
                if n == 'rst':
                    v = 1 if (k < 2 or r.random() < 0.05) else 0
                s.wires[n].put(v)
                sim.set(n, v)
            psim.clk(1)
            sim.settle()
            sim.clock()
            for n, w in s.outs:
                if sim.get(n) != (s.wires[n].get(), 0):
                    bad += 1
                    if bad == 1:
                        disagreements.append((name, k, n, s.wires[n].get(), sim.get(n)))
        check('f.seq-compare-' + name, bad == 0, '%d mismatches, first: %r' % (bad, disagreements[-1:] if bad else ''))
    # gated clock body emitted by py4hw (BodyGatedClock)
    try:
        d = elaborate(parse(gated_clock_text()), 'Dut')
        sim = Sim(d, rng=random.Random(1))
        sim.set('clk', 0)
        sim.set('en', 0)
        sim.settle()     # x->0 on clk is a negedge: latches en = 0
        sim.set('en', 1)
        sim.clock()      # not yet enabled in this high phase; en latched at this negedge
        sim.clock()
        sim.clock()
        sim.set('en', 0)
        sim.clock()      # still enabled during this high phase, latched off at its negedge
        sim.clock()
        check('f.gated-clock-body', sim.get('q') == (3, 0) and d.warnings == [], repr((sim.get('q'), d.warnings)))
    except VError as e:
        check('f.gated-clock-body', False, str(e))
    # performance
    if 'FPAdder_SP' in designs:
        sim = Sim(designs['FPAdder_SP'], rng=random.Random(3))
        r = random.Random(1)
        t0 = time.perf_counter()
        e0 = sim.stats['events']
        for _ in range(60):
            sim.set('a', r.getrandbits(32))
            sim.set('b', r.getrandbits(32))
            sim.settle()
        dt = time.perf_counter() - t0
        rate = (sim.stats['events'] - e0) / max(dt, 1e-9)
        check('f.performance', rate >= 1e4, '%.0f events/s' % rate)
        if VERBOSE:
            print('     %.0f process evaluations per second' % rate)
    if VERBOSE or True:
        for r_ in rejected:
            print('     py4hw text rejected: %s (%s) rule=%s' % (r_[0], r_[1], r_[2]))
        for d_ in disagreements:
            print('     py4hw/vsim disagreement: %r' % (d_,))


def main():
    if '--det-hash' in sys.argv:
        seed = int(sys.argv[sys.argv.index('--det-hash') + 1])
        print(det_run(seed)[0])
        return 0
    t0 = time.time()
    for sec in (section_a, section_b, section_c, section_d, section_e, section_f):
        try:
            sec()
        except Exception as e:      # noqa
            import traceback
            traceback.print_exc()
            check(sec.__name__ + '.crashed', False, repr(e))
    fails = [r for r in RESULTS if not r[1]]
    print('vsim selftest: %d checks, %d failed (%.1fs)' % (len(RESULTS), len(fails), time.time() - t0))
    return 1 if fails else 0


if __name__ == '__main__':
    sys.exit(main())

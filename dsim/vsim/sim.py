"""4-state event-driven simulator over an elaborated Design (IEEE 1364-2005 clause 11)."""
from collections import deque


class VSimOscillation(Exception):
    pass


class Sim(object):
    """Simulate `design`.

    rng           random.Random choosing among ready active events and among processes in the
                  NBA region; None = deterministic FIFO order (activation order, seeded in
                  canonical process order).
    zero_powerup  variables / memories without initialiser start at 0 instead of x.
    trace         keep a list (self.trace) of executed process ids (NBA application of
                  process p is recorded as -(p+1)).
    settle0       run the time-0 activity (initial blocks, assigns, always @*) in the
                  constructor.
    """

    max_runs_per_process = 10000     # per settle() call
    max_delta_cycles = 10000         # NBA iterations per settle() call

    def __init__(self, design, rng=None, zero_powerup=False, trace=False, settle0=True):
        self.design = design
        self.rng = rng
        self.zero_powerup = zero_powerup
        self.stats = {'events': 0, 'delta_cycles': 0, 'order_choices': 0, 'nba_updates': 0}
        self.trace = [] if trace else None
        self.cur = -1
        S = []
        for s in design.signals:
            m = (1 << s.width) - 1
            if s.kind == 'var' and zero_powerup:
                v0 = (0, 0)
            else:
                v0 = (0, m)
            if s.is_mem:
                S.append([v0] * s.depth)
            elif s.init is not None:
                S.append(s.init)
            else:
                S.append(v0)
        self.S = S
        n = len(design.procs)
        self.sched = [False] * n
        self.active = deque() if rng is None else []
        self.nba = {}
        self.nba_order = []
        self._procs = design.procs
        self._fan = design.fanout
        self._widths = [s.width for s in design.signals]
        # time 0: initial blocks first, then everything that evaluates at time 0
        inits = [p.pid for p in design.procs if p.kind == 'initial']
        self._pending0 = [p.pid for p in design.procs if p.kind in ('assign', 'port', 'comb')]
        for pid in inits:
            self.sched[pid] = True
            self.active.append(pid)
        self._time0_done = False
        if settle0:
            self.settle()

    # ------------------------------------------------------------------ cloning
    def clone(self, rng=None):
        c = object.__new__(Sim)
        c.design = self.design
        c.rng = rng
        c.zero_powerup = self.zero_powerup
        c.stats = dict(self.stats)
        c.trace = None if self.trace is None else list(self.trace)
        c.cur = -1
        S = list(self.S)
        for i in self.design.mem_idxs:
            S[i] = list(S[i])
        c.S = S
        c.sched = list(self.sched)
        c.active = deque(self.active) if rng is None else list(self.active)
        c.nba = dict((k, list(v)) for k, v in self.nba.items())
        c.nba_order = list(self.nba_order)
        c._procs = self._procs
        c._fan = self._fan
        c._widths = self._widths
        c._pending0 = list(self._pending0)
        c._time0_done = self._time0_done
        return c

    # ------------------------------------------------------------------ writes (called by compiled code)
    def write_sig(self, i, v, x):
        old = self.S[i]
        if old[0] == v and old[1] == x:
            return
        self.S[i] = (v, x)
        self._notify(i, old[0], old[1], v, x)

    def write_updates(self, ups):
        S = self.S
        for i, addr, lo, w, v, x in ups:
            if addr < 0:
                old = S[i]
                if w == self._widths[i]:
                    nv, nx = v, x
                else:
                    m = ((1 << w) - 1) << lo
                    nv = (old[0] & ~m) | (v << lo)
                    nx = (old[1] & ~m) | (x << lo)
                if nv == old[0] and nx == old[1]:
                    continue
                S[i] = (nv, nx)
                self._notify(i, old[0], old[1], nv, nx)
            else:
                mem = S[i]
                old = mem[addr]
                if w == self._widths[i]:
                    nv, nx = v, x
                else:
                    m = ((1 << w) - 1) << lo
                    nv = (old[0] & ~m) | (v << lo)
                    nx = (old[1] & ~m) | (x << lo)
                if nv == old[0] and nx == old[1]:
                    continue
                mem[addr] = (nv, nx)
                self._notify(i, 0, 0, 1, 0, True)

    def nba_add(self, ups):
        if not ups:
            return
        pid = self.cur
        q = self.nba.get(pid)
        if q is None:
            self.nba[pid] = q = []
            self.nba_order.append(pid)
        q.extend(ups)

    def _notify(self, i, ov, ox, nv, nx, mem=False):
        fan = self._fan[i]
        if not fan:
            return
        sched = self.sched
        cur = self.cur
        for pid, edge in fan:
            if edge and not mem:
                o = 2 if ox & 1 else ov & 1
                n = 2 if nx & 1 else nv & 1
                if o == n:
                    continue
                if edge == 1:
                    if not (o == 0 or n == 1):
                        continue
                elif not (o == 1 or n == 0):
                    continue
            elif edge and mem:
                continue
            if pid == cur:
                continue        # a running process is not waiting at its event control
            if not sched[pid]:
                sched[pid] = True
                self.active.append(pid)

    # ------------------------------------------------------------------ event loop
    def settle(self):
        procs = self._procs
        active = self.active
        sched = self.sched
        rng = self.rng
        stats = self.stats
        trace = self.trace
        counts = {}
        cap = self.max_runs_per_process
        deltas = 0
        while True:
            while True:
                n = len(active)
                if n == 0:
                    if not self._time0_done:
                        # initial blocks are done; now start assigns / always @*
                        self._time0_done = True
                        for pid in self._pending0:
                            if not sched[pid]:
                                sched[pid] = True
                                active.append(pid)
                        self._pending0 = []
                        if active:
                            continue
                    break
                if rng is None:
                    pid = active.popleft()
                elif n > 1:
                    stats['order_choices'] += 1
                    k = rng.randrange(n)
                    pid = active[k]
                    active[k] = active[-1]
                    active.pop()
                else:
                    pid = active.pop()
                sched[pid] = False
                c = counts.get(pid, 0) + 1
                counts[pid] = c
                if c > cap:
                    raise VSimOscillation('process %s ran more than %d times in one time step'
                                          % (procs[pid].describe(), cap))
                p = procs[pid]
                stats['events'] += 1
                if trace is not None:
                    trace.append(pid)
                if p.selftrig:
                    self.cur = -1
                    p.run(self)
                else:
                    self.cur = pid
                    p.run(self)
                    self.cur = -1
            if not self.nba:
                break
            deltas += 1
            stats['delta_cycles'] += 1
            if deltas > self.max_delta_cycles:
                raise VSimOscillation('more than %d NBA delta cycles in one time step' % self.max_delta_cycles)
            order = self.nba_order
            nba = self.nba
            self.nba = {}
            self.nba_order = []
            if rng is not None and len(order) > 1:
                stats['order_choices'] += 1
                rng.shuffle(order)
            for pid in order:
                ups = nba[pid]
                stats['nba_updates'] += len(ups)
                if trace is not None:
                    trace.append(-(pid + 1))
                self.write_updates(ups)
        return self

    # ------------------------------------------------------------------ testbench API
    def set(self, name, value, xmask=0):
        d = self.design
        if name in d.inputs:
            w = d.inputs[name]
        elif name in d.inouts:
            w = d.inouts[name]
        else:
            raise KeyError("'%s' is not a top-level input of %s" % (name, d.top_name))
        m = (1 << w) - 1
        xmask &= m
        self.write_sig(d.top.syms[name].sig, value & m & ~xmask, xmask)

    def get(self, name):
        d = self.design
        if name not in d.inputs and name not in d.outputs and name not in d.inouts:
            raise KeyError("'%s' is not a top-level port of %s" % (name, d.top_name))
        return self.S[d.top.syms[name].sig]

    def peek(self, hier_name):
        sig, sym = self.design.resolve(hier_name)
        if sig.is_mem:
            raise KeyError("'%s' is a memory; use peek_mem" % hier_name)
        return self.S[sig.idx]

    def peek_mem(self, hier_name, addr):
        sig, sym = self.design.resolve(hier_name)
        if not sig.is_mem:
            raise KeyError("'%s' is not a memory" % hier_name)
        a = addr - sig.mem_lo
        if a < 0 or a >= sig.depth:
            return (0, (1 << sig.width) - 1)
        return self.S[sig.idx][a]

    def clock(self, clkname='clk'):
        self.set(clkname, 1)
        self.settle()
        self.set(clkname, 0)
        self.settle()
        return self

"""Lexer + recursive-descent parser for the Verilog-2005 subset understood by vsim.

Only syntax lives here.  Every construct outside the subset raises VParseError
with a line number; a Verilog-2005 reserved word found where an identifier is
required raises VReservedWord (which is *both* a VParseError and a VElabError,
rule 'reserved-word').
"""
import sys

# --------------------------------------------------------------------------- errors


class VError(Exception):
    rule = 'error'

    def __init__(self, rule, detail, line=None):
        self.rule = rule
        self.detail = detail
        self.line = line
        loc = '' if line is None else ' (line %d)' % line
        Exception.__init__(self, '[%s] %s%s' % (rule, detail, loc))


class VParseError(VError):
    def __init__(self, detail, line=None, rule='syntax'):
        VError.__init__(self, rule, detail, line)


class VElabError(VError):
    def __init__(self, rule, detail, line=None):
        VError.__init__(self, rule, detail, line)


class VReservedWord(VParseError, VElabError):
    def __init__(self, word, what, line=None):
        VError.__init__(self, 'reserved-word',
                        "Verilog-2005 reserved word '%s' used as %s" % (word, what), line)
        self.word = word


# --------------------------------------------------------------------------- keywords

KEYWORDS_2005 = frozenset('''
always and assign automatic begin buf bufif0 bufif1 case casex casez cell cmos config
deassign default defparam design disable edge else end endcase endconfig endfunction
endgenerate endmodule endprimitive endspecify endtable endtask event for force forever
fork function generate genvar highz0 highz1 if ifnone incdir include initial inout input
instance integer join large liblist library localparam macromodule medium module nand
negedge nmos nor noshowcancelled not notif0 notif1 or output parameter pmos posedge
primitive pull0 pull1 pulldown pullup pulsestyle_onevent pulsestyle_ondetect rcmos real
realtime reg release repeat rnmos rpmos rtran rtranif0 rtranif1 scalared showcancelled
signed small specify specparam strong0 strong1 supply0 supply1 table task time tran
tranif0 tranif1 tri tri0 tri1 triand trior trireg unsigned use uwire vectored wait wand
weak0 weak1 while wire wor xnor xor
'''.split())

GATE_KEYWORDS = frozenset('''and nand or nor xor xnor buf not bufif0 bufif1 notif0 notif1
nmos pmos cmos rnmos rpmos rcmos tran tranif0 tranif1 rtran rtranif0 rtranif1 pullup
pulldown'''.split())

# --------------------------------------------------------------------------- AST


class Node(object):
    __slots__ = ('line',)
    _fields = ()

    def __repr__(self):
        return '%s(%s)' % (type(self).__name__,
                           ', '.join('%s=%r' % (f, getattr(self, f)) for f in self._fields))


def _node(name, fields):
    fields = tuple(fields.split())

    def __init__(self, *args, **kw):
        line = kw.pop('line', None)
        if len(args) != len(fields) or kw:
            raise TypeError('%s expects %s' % (name, fields))
        for f, a in zip(fields, args):
            setattr(self, f, a)
        self.line = line
    return type(name, (Node,), {'__slots__': fields, '_fields': fields, '__init__': __init__})


# expressions
# width None => unsized; nat_width = width an unsized literal takes (>=32); xfill = unsized
# literal whose leftmost digit is x/z (extends with x to any context width)
Num = _node('Num', 'val xmask zmask width signed sized plain nat_width xfill')
Id = _node('Id', 'name')
Index = _node('Index', 'base idx')                 # bit-select or memory word
PartSel = _node('PartSel', 'base msb lsb')         # x[h:l]
IdxPartSel = _node('IdxPartSel', 'base start width up')   # x[b +: w] / x[b -: w]
Concat = _node('Concat', 'parts')
Repl = _node('Repl', 'count parts')
Unary = _node('Unary', 'op arg')
Binary = _node('Binary', 'op lhs rhs')
Cond = _node('Cond', 'cond then els')
SysCall = _node('SysCall', 'name args')
# statements
Block = _node('Block', 'stmts name')
AssignStmt = _node('AssignStmt', 'lhs rhs blocking')
IfStmt = _node('IfStmt', 'cond then els')
CaseStmt = _node('CaseStmt', 'kind expr items')    # items: [(labels|None, stmt)]
NullStmt = _node('NullStmt', '')
ForStmt = _node('ForStmt', 'init cond step body')
# module items
Port = _node('Port', 'direction is_reg signed range name init')
Decl = _node('Decl', 'kind signed range names')    # names: [(name, array_range|None, init|None, line)]
Param = _node('Param', 'name value local signed range')
ContAssign = _node('ContAssign', 'lhs rhs')
Always = _node('Always', 'sens body')              # sens: '*' or [(edge, name)], edge in pos/neg/any
Initial = _node('Initial', 'body')
Instance = _node('Instance', 'module params name conns')   # params [(name|None, expr)], conns [(port, expr|None, line)]
Module = _node('Module', 'name params ports items text')

# --------------------------------------------------------------------------- lexer

_OPS3 = ('<<<', '>>>', '===', '!==')
_OPS2 = ('<<', '>>', '<=', '>=', '==', '!=', '&&', '||', '**', '~&', '~|', '~^', '^~')
_OPS1 = '()[]{}:;,.=+-*/%<>!~&|^?@#'

_IDSTART = frozenset('abcdefghijklmnopqrstuvwxyzABCDEFGHIJKLMNOPQRSTUVWXYZ_')
_IDCHAR = frozenset('abcdefghijklmnopqrstuvwxyzABCDEFGHIJKLMNOPQRSTUVWXYZ_0123456789$')
_DIGITS = frozenset('0123456789')


class Tok(object):
    __slots__ = ('kind', 'val', 'line', 'pos', 'end')

    def __init__(self, kind, val, line, pos=0, end=0):
        self.kind = kind     # id kw num op sysid eof
        self.val = val
        self.line = line
        self.pos = pos
        self.end = end

    def __repr__(self):
        return 'Tok(%s,%r,%d)' % (self.kind, self.val, self.line)


def _parse_based(size_txt, signed, base, digits, line):
    """Return a Num for a based literal.  size_txt may be None."""
    digits = digits.replace('_', '')
    if not digits:
        raise VParseError('based literal without digits', line)
    base = base.lower()
    val = xm = zm = 0
    nbits = 0
    if base == 'd':
        low = digits.lower()
        if low in ('x', 'z', '?'):
            # all-x / all-z decimal literal
            nbits = 1
            if low == 'x':
                xm = 1
            else:
                zm = 1
            xfill = True
        else:
            if not all(c in _DIGITS for c in digits):
                raise VParseError("illegal digit in decimal literal '%s'" % digits, line)
            val = int(digits)
            nbits = max(1, val.bit_length())
            xfill = False
        topx = xm & 1
        topz = zm & 1
    else:
        bpd = {'b': 1, 'o': 3, 'h': 4}[base]
        legal = {'b': '01', 'o': '01234567', 'h': '0123456789abcdef'}[base]
        for c in digits.lower():
            val <<= bpd
            xm <<= bpd
            zm <<= bpd
            if c == 'x':
                xm |= (1 << bpd) - 1
            elif c in 'z?':
                zm |= (1 << bpd) - 1
            elif c in legal:
                val |= int(c, 16)
            else:
                raise VParseError("illegal digit '%s' in base-%s literal" % (c, base), line)
        nbits = bpd * len(digits)
        first = digits[0].lower()
        topx = 1 if first == 'x' else 0
        topz = 1 if first in 'z?' else 0
    if size_txt is not None:
        width = int(size_txt.replace('_', ''))
        if width <= 0:
            raise VParseError('literal size must be positive', line)
        if width > nbits:
            # pad on the left: with x/z if leftmost digit is x/z else 0
            pad = ((1 << width) - 1) ^ ((1 << nbits) - 1)
            if topx:
                xm |= pad
            elif topz:
                zm |= pad
        m = (1 << width) - 1
        return Num(val & m, xm & m, zm & m, width, signed, True, False, None, False, line=line)
    # unsized: at least 32 bits, sized to fit when wider (deliberate leniency)
    if topx or topz:
        need = nbits
    else:
        need = max(1, (val | xm | zm).bit_length())
    width = max(32, need)
    if width > nbits:
        pad = ((1 << width) - 1) ^ ((1 << nbits) - 1)
        if topx:
            xm |= pad
        elif topz:
            zm |= pad
    return Num(val, xm, zm, None, signed, False, False, width, bool(topx or topz), line=line)


def _mk_plain(text, line):
    v = int(text.replace('_', ''))
    nat = 32 if v.bit_length() < 32 else v.bit_length() + 1
    return Num(v, 0, 0, None, True, False, True, nat, False, line=line)


def lex(text):
    toks = []
    i = 0
    n = len(text)
    line = 1
    while i < n:
        c = text[i]
        if c == '\n':
            line += 1
            i += 1
            continue
        if c in ' \t\r\f':
            i += 1
            continue
        if c == '/' and i + 1 < n:
            d = text[i + 1]
            if d == '/':
                j = text.find('\n', i)
                i = n if j < 0 else j
                continue
            if d == '*':
                j = text.find('*/', i + 2)
                if j < 0:
                    raise VParseError('unterminated /* comment', line)
                line += text.count('\n', i, j)
                i = j + 2
                continue
        if c == '(' and i + 1 < n and text[i + 1] == '*':
            # attribute instance, unless it is the "(*)" of an event control
            j = i + 2
            while j < n and text[j] in ' \t\r\n':
                j += 1
            if j < n and text[j] == ')':
                pass  # fall through, lexed as ( * )
            else:
                j = text.find('*)', i + 2)
                if j < 0:
                    raise VParseError('unterminated (* attribute', line)
                line += text.count('\n', i, j)
                i = j + 2
                continue
        if c in _IDSTART:
            j = i + 1
            while j < n and text[j] in _IDCHAR:
                j += 1
            w = text[i:j]
            toks.append(Tok('kw' if w in KEYWORDS_2005 else 'id', w, line, i, j))
            i = j
            continue
        if c == '$':
            j = i + 1
            while j < n and text[j] in _IDCHAR:
                j += 1
            toks.append(Tok('sysid', text[i:j], line, i, j))
            i = j
            continue
        if c == '\\':
            raise VParseError('escaped identifiers are not supported', line)
        if c == '"':
            raise VParseError('string literals are not supported', line)
        if c == '`':
            j = i + 1
            while j < n and text[j] in _IDCHAR:
                j += 1
            d = text[i + 1:j]
            if d in ('timescale', 'default_nettype', 'resetall', 'celldefine', 'endcelldefine'):
                k = text.find('\n', i)
                i = n if k < 0 else k
                continue
            raise VParseError('compiler directive `%s is not supported' % d, line)
        if c in _DIGITS or c == "'":
            start = i
            size_txt = None
            if c in _DIGITS:
                j = i
                while j < n and (text[j] in _DIGITS or text[j] == '_'):
                    j += 1
                size_txt = text[i:j]
                # real numbers are not supported
                if j < n and text[j] == '.' and j + 1 < n and text[j + 1] in _DIGITS:
                    raise VParseError('real literals are not supported', line)
                k = j
                while k < n and text[k] in ' \t':
                    k += 1
                if k < n and text[k] == "'":
                    i = k
                else:
                    if j < n and text[j] in _IDSTART:
                        raise VParseError("malformed number '%s'" % text[i:j + 1], line)
                    t = Tok('num', _mk_plain(size_txt, line), line, start, j)
                    toks.append(t)
                    i = j
                    continue
            # at the apostrophe
            j = i + 1
            signed = False
            if j < n and text[j] in 'sS':
                signed = True
                j += 1
            if j >= n or text[j] not in 'bBoOdDhH':
                raise VParseError("malformed based literal near '%s'" % text[start:j + 1], line)
            base = text[j]
            j += 1
            while j < n and text[j] in ' \t':
                j += 1
            k = j
            while k < n and (text[k] in '0123456789abcdefABCDEFxXzZ?_'):
                k += 1
            digits = text[j:k]
            if k < n and text[k] in _IDCHAR:
                raise VParseError("malformed based literal '%s'" % text[start:k + 1], line)
            num = _parse_based(size_txt, signed, base, digits, line)
            toks.append(Tok('num', num, line, start, k))
            i = k
            continue
        matched = None
        for ops in (_OPS3, _OPS2):
            ln = len(ops[0])
            s = text[i:i + ln]
            if s in ops:
                matched = s
                break
        if matched is None and c in _OPS1:
            matched = c
        if matched is None:
            raise VParseError('unexpected character %r' % c, line)
        toks.append(Tok('op', matched, line, i, i + len(matched)))
        i += len(matched)
    toks.append(Tok('eof', None, line, n, n))
    return toks


# --------------------------------------------------------------------------- parser

_BINPREC = {
    '**': 11,
    '*': 10, '/': 10, '%': 10,
    '+': 9, '-': 9,
    '<<': 8, '>>': 8, '<<<': 8, '>>>': 8,
    '<': 7, '<=': 7, '>': 7, '>=': 7,
    '==': 6, '!=': 6, '===': 6, '!==': 6,
    '&': 5,
    '^': 4, '~^': 4, '^~': 4,
    '|': 3,
    '&&': 2,
    '||': 1,
}
_UNARY = frozenset(['+', '-', '!', '~', '&', '~&', '|', '~|', '^', '~^', '^~'])


class Parser(object):
    def __init__(self, text):
        self.text = text
        self.toks = lex(text)
        self.i = 0

    # ---- token helpers
    @property
    def t(self):
        return self.toks[self.i]

    def peek(self, k=1):
        j = min(self.i + k, len(self.toks) - 1)
        return self.toks[j]

    def adv(self):
        t = self.toks[self.i]
        if t.kind != 'eof':
            self.i += 1
        return t

    def is_op(self, v):
        t = self.toks[self.i]
        return t.kind == 'op' and t.val == v

    def is_kw(self, v):
        t = self.toks[self.i]
        return t.kind == 'kw' and t.val == v

    def accept_op(self, v):
        if self.is_op(v):
            self.i += 1
            return True
        return False

    def accept_kw(self, v):
        if self.is_kw(v):
            self.i += 1
            return True
        return False

    def describe(self, t=None):
        t = t or self.t
        if t.kind == 'eof':
            return 'end of input'
        if t.kind == 'num':
            return 'number'
        return "'%s'" % t.val

    def err(self, msg, t=None):
        t = t or self.t
        raise VParseError(msg, t.line)

    def expect_op(self, v, ctx=''):
        if not self.accept_op(v):
            self.err("expected '%s'%s but found %s" % (v, (' ' + ctx) if ctx else '', self.describe()))

    def expect_kw(self, v):
        if not self.accept_kw(v):
            self.err("expected '%s' but found %s" % (v, self.describe()))

    def ident(self, what):
        t = self.t
        if t.kind == 'id':
            self.i += 1
            return t.val
        if t.kind == 'kw':
            raise VReservedWord(t.val, what, t.line)
        self.err('expected %s (identifier) but found %s' % (what, self.describe()))

    # ---- top level
    def parse_source(self):
        mods = []
        while self.t.kind != 'eof':
            if self.is_kw('module') or self.is_kw('macromodule'):
                mods.append(self.parse_module())
            else:
                self.err('expected module but found %s' % self.describe())
        return mods

    def parse_module(self):
        start = self.t
        self.adv()
        name = self.ident('module name')
        params = []
        ports = []
        if self.accept_op('#'):
            self.expect_op('(', 'after # in module header')
            if not self.is_op(')'):
                while True:
                    line = self.t.line
                    self.accept_kw('parameter')
                    signed, rng = self.parse_sign_range()
                    if self.accept_kw('integer'):
                        signed, rng = True, None
                    pname = self.ident('parameter name')
                    val = None
                    if self.accept_op('='):
                        val = self.parse_expr()
                    params.append(Param(pname, val, False, signed, rng, line=line))
                    if not self.accept_op(','):
                        break
            self.expect_op(')', 'closing parameter port list')
        if self.accept_op('('):
            if not self.is_op(')'):
                direction = None
                is_reg = False
                signed = False
                rng = None
                while True:
                    line = self.t.line
                    t = self.t
                    if t.kind == 'kw' and t.val in ('input', 'output', 'inout'):
                        direction = t.val
                        self.adv()
                        is_reg = False
                        if self.is_kw('wire') or self.is_kw('reg'):
                            nt = self.adv()
                            is_reg = nt.val == 'reg'
                            if self.is_op(',') or self.is_op(')'):
                                raise VReservedWord(nt.val, 'port name', nt.line)
                        elif self.is_kw('integer'):
                            self.err('integer ports are not supported')
                        signed, rng = self.parse_sign_range()
                    elif direction is None:
                        if t.kind == 'id':
                            self.err('non-ANSI port lists are not supported')
                        self.err('expected port direction but found %s' % self.describe())
                    pname = self.ident('port name')
                    init = None
                    if self.is_op('='):
                        self.adv()
                        init = self.parse_expr()
                    if self.is_op('['):
                        self.err('array ports are not supported')
                    ports.append(Port(direction, is_reg, signed, rng, pname, init, line=line))
                    if not self.accept_op(','):
                        break
            self.expect_op(')', 'closing port list')
        self.expect_op(';', 'after module header')
        items = []
        while not self.is_kw('endmodule'):
            if self.t.kind == 'eof':
                self.err("missing 'endmodule' for module %s" % name)
            self.parse_item(items)
        end = self.adv()
        m = Module(name, params, ports, items, self.text[start.pos:end.end], line=start.line)
        return m

    def parse_sign_range(self):
        signed = False
        if self.accept_kw('signed'):
            signed = True
        elif self.is_kw('unsigned'):
            self.err("'unsigned' is not valid here")
        rng = None
        if self.is_op('['):
            rng = self.parse_range()
        return signed, rng

    def parse_range(self):
        self.expect_op('[')
        msb = self.parse_expr()
        self.expect_op(':', 'in range')
        lsb = self.parse_expr()
        self.expect_op(']', 'closing range')
        return (msb, lsb)

    # ---- module items
    def parse_item(self, items):
        t = self.t
        line = t.line
        if t.kind == 'kw':
            k = t.val
            if k in ('wire', 'reg', 'integer'):
                self.adv()
                signed = False
                rng = None
                if k == 'integer':
                    if self.is_op('[') or self.is_kw('signed'):
                        self.err('integer declarations take no range/sign')
                else:
                    signed, rng = self.parse_sign_range()
                names = []
                while True:
                    nline = self.t.line
                    nm = self.ident('%s name' % k)
                    arr = None
                    init = None
                    if self.is_op('['):
                        arr = self.parse_range()
                        if self.is_op('['):
                            self.err('multi-dimensional arrays are not supported')
                    if self.accept_op('='):
                        if arr is not None:
                            self.err('array initialisers are not supported')
                        init = self.parse_expr()
                    names.append((nm, arr, init, nline))
                    if not self.accept_op(','):
                        break
                self.expect_op(';', 'after declaration')
                items.append(Decl(k, signed, rng, names, line=line))
                return
            if k in ('parameter', 'localparam'):
                self.adv()
                signed, rng = self.parse_sign_range()
                if self.accept_kw('integer'):
                    signed, rng = True, None
                while True:
                    pl = self.t.line
                    pname = self.ident('parameter name')
                    self.expect_op('=', 'in parameter declaration')
                    val = self.parse_expr()
                    items.append(Param(pname, val, k == 'localparam', signed, rng, line=pl))
                    if not self.accept_op(','):
                        break
                self.expect_op(';', 'after parameter declaration')
                return
            if k == 'assign':
                self.adv()
                if self.is_op('#') or self.is_op('('):
                    self.err('delays / drive strengths on assign are not supported')
                while True:
                    al = self.t.line
                    lhs = self.parse_lvalue()
                    self.expect_op('=', 'in continuous assignment')
                    rhs = self.parse_expr()
                    items.append(ContAssign(lhs, rhs, line=al))
                    if not self.accept_op(','):
                        break
                self.expect_op(';', 'after continuous assignment')
                return
            if k == 'always':
                self.adv()
                sens = self.parse_event_control()
                body = self.parse_stmt()
                items.append(Always(sens, body, line=line))
                return
            if k == 'initial':
                self.adv()
                body = self.parse_stmt()
                items.append(Initial(body, line=line))
                return
            if k in ('input', 'output', 'inout'):
                self.err('non-ANSI port declarations in the module body are not supported')
            if k in GATE_KEYWORDS:
                nx = self.peek()
                if nx.kind in ('id', 'kw') or (nx.kind == 'op' and nx.val == '#'):
                    raise VReservedWord(k, 'module name in an instantiation '
                                           '(gate primitives are not supported)', line)
            self.err("unsupported construct starting with keyword '%s'" % k)
        if t.kind == 'id':
            self.parse_instances(items)
            return
        if t.kind == 'op' and t.val == ';':
            self.adv()   # stray semicolon: tolerated
            return
        self.err('unexpected %s in module body' % self.describe())

    def parse_instances(self, items):
        line = self.t.line
        mod = self.ident('module name')
        params = []
        if self.accept_op('#'):
            self.expect_op('(', 'after # in instantiation')
            if not self.is_op(')'):
                while True:
                    if self.accept_op('.'):
                        pn = self.ident('parameter name')
                        self.expect_op('(')
                        val = None if self.is_op(')') else self.parse_expr()
                        self.expect_op(')')
                        params.append((pn, val))
                    else:
                        params.append((None, self.parse_expr()))
                    if not self.accept_op(','):
                        break
            self.expect_op(')', 'closing parameter assignment')
        while True:
            il = self.t.line
            iname = self.ident('instance name')
            if self.is_op('['):
                self.err('instance arrays are not supported')
            self.expect_op('(', 'after instance name')
            conns = []
            if not self.is_op(')'):
                while True:
                    cl = self.t.line
                    if not self.accept_op('.'):
                        self.err('only named port connections (.port(expr)) are supported')
                    pn = self.ident('port name')
                    self.expect_op('(', 'after port name')
                    e = None if self.is_op(')') else self.parse_expr()
                    self.expect_op(')', 'closing port connection')
                    conns.append((pn, e, cl))
                    if not self.accept_op(','):
                        break
            self.expect_op(')', 'closing instance connection list')
            items.append(Instance(mod, params, iname, conns, line=il))
            if not self.accept_op(','):
                break
        self.expect_op(';', 'after module instantiation')

    def parse_event_control(self):
        if not self.accept_op('@'):
            if self.is_op('#'):
                self.err('delays are not supported')
            self.err("expected '@' after always (always without event control is not supported)")
        if self.accept_op('*'):
            return '*'
        self.expect_op('(', 'after @')
        if self.accept_op('*'):
            self.expect_op(')')
            return '*'
        sens = []
        while True:
            edge = 'any'
            if self.accept_kw('posedge'):
                edge = 'pos'
            elif self.accept_kw('negedge'):
                edge = 'neg'
            paren = self.accept_op('(')
            nm = self.ident('signal in event control')
            if self.is_op('[') or self.is_op('.'):
                self.err('only plain identifiers are supported in event controls')
            if paren:
                self.expect_op(')')
            sens.append((edge, nm))
            if self.accept_kw('or') or self.accept_op(','):
                continue
            break
        self.expect_op(')', 'closing event control')
        return sens

    # ---- statements
    def parse_stmt(self):
        t = self.t
        line = t.line
        if t.kind == 'op':
            if t.val == ';':
                self.adv()
                return NullStmt(line=line)
            if t.val == '#':
                self.err('delay controls are not supported')
            if t.val == '@':
                self.err('event controls inside procedural bodies are not supported')
            if t.val == '{':
                return self.parse_assign_stmt()
            self.err('unexpected %s at start of statement' % self.describe())
        if t.kind == 'kw':
            k = t.val
            if k == 'begin':
                self.adv()
                name = None
                if self.accept_op(':'):
                    name = self.ident('block name')
                stmts = []
                while not self.is_kw('end'):
                    if self.t.kind == 'eof':
                        self.err("missing 'end'")
                    if self.t.kind == 'kw' and self.t.val in ('reg', 'integer', 'wire', 'parameter', 'localparam'):
                        self.err('declarations inside begin/end blocks are not supported')
                    stmts.append(self.parse_stmt())
                self.adv()
                return Block(stmts, name, line=line)
            if k == 'if':
                self.adv()
                self.expect_op('(', "after 'if'")
                cond = self.parse_expr()
                self.expect_op(')', 'closing if condition')
                then = self.parse_stmt()
                els = None
                if self.accept_kw('else'):
                    els = self.parse_stmt()
                return IfStmt(cond, then, els, line=line)
            if k in ('case', 'casez', 'casex'):
                self.adv()
                self.expect_op('(', "after '%s'" % k)
                e = self.parse_expr()
                self.expect_op(')', 'closing case expression')
                items = []
                seen_default = False
                while not self.is_kw('endcase'):
                    if self.t.kind == 'eof':
                        self.err("missing 'endcase'")
                    if self.accept_kw('default'):
                        if seen_default:
                            self.err('more than one default in case statement')
                        seen_default = True
                        self.accept_op(':')
                        items.append((None, self.parse_stmt()))
                    else:
                        labels = [self.parse_expr()]
                        while self.accept_op(','):
                            labels.append(self.parse_expr())
                        self.expect_op(':', 'after case label')
                        items.append((labels, self.parse_stmt()))
                self.adv()
                return CaseStmt(k, e, items, line=line)
            if k == 'for':
                # for (i = 0; i < N; i = i + 1) stmt   -- blocking init/step assignments only
                self.adv()
                self.expect_op('(', "after 'for'")
                init = self.parse_assign_stmt(semi=True)
                cond = self.parse_expr()
                self.expect_op(';', 'after for condition')
                step = self.parse_assign_stmt(semi=False)
                self.expect_op(')', 'closing for header')
                if not (init.blocking and step.blocking):
                    self.err('for loop init/step must be blocking assignments')
                body = self.parse_stmt()
                return ForStmt(init, cond, step, body, line=line)
            if k in ('while', 'repeat', 'forever', 'wait', 'disable', 'fork', 'force',
                     'release', 'deassign', 'assign'):
                self.err("statement '%s' is not supported" % k)
            if k in ('end', 'else', 'endcase', 'endmodule', 'default'):
                self.err("unexpected '%s'" % k)
            raise VReservedWord(k, 'assignment target / statement', line)
        if t.kind == 'id':
            return self.parse_assign_stmt()
        if t.kind == 'sysid':
            self.err('system task %s is not supported' % t.val)
        self.err('unexpected %s at start of statement' % self.describe())

    def parse_assign_stmt(self, semi=True):
        line = self.t.line
        lhs = self.parse_lvalue()
        if self.accept_op('='):
            blocking = True
        elif self.accept_op('<='):
            blocking = False
        else:
            self.err("expected '=' or '<=' in assignment but found %s" % self.describe())
        if self.is_op('#') or self.is_op('@'):
            self.err('intra-assignment timing controls are not supported')
        rhs = self.parse_expr()
        if semi:
            self.expect_op(';', 'after assignment')
        return AssignStmt(lhs, rhs, blocking, line=line)

    def parse_lvalue(self):
        line = self.t.line
        if self.accept_op('{'):
            parts = [self.parse_lvalue()]
            while self.accept_op(','):
                parts.append(self.parse_lvalue())
            self.expect_op('}', 'closing lvalue concatenation')
            return Concat(parts, line=line)
        name = self.ident('assignment target')
        node = Id(name, line=line)
        return self.parse_selects(node)

    def parse_selects(self, node):
        while self.is_op('['):
            line = self.t.line
            if isinstance(node, (PartSel, IdxPartSel)):
                self.err('select of a part-select is not supported')
            self.adv()
            e = self.parse_expr()
            if self.accept_op(':'):
                lsb = self.parse_expr()
                self.expect_op(']', 'closing part-select')
                node = PartSel(node, e, lsb, line=line)
            elif (self.is_op('+') or self.is_op('-')) and self.peek().kind == 'op' and self.peek().val == ':':
                up = self.t.val == '+'
                self.adv()
                self.adv()
                w = self.parse_expr()
                self.expect_op(']', 'closing indexed part-select')
                node = IdxPartSel(node, e, w, up, line=line)
            else:
                self.expect_op(']', 'closing select')
                node = Index(node, e, line=line)
        if self.is_op('.'):
            self.err('hierarchical references are not supported')
        return node

    # ---- expressions
    def parse_expr(self):
        return self.parse_cond()

    def parse_cond(self):
        c = self.parse_binary(1)
        if self.is_op('?'):
            line = self.t.line
            self.adv()
            a = self.parse_cond()
            self.expect_op(':', "in '?:' expression")
            b = self.parse_cond()
            return Cond(c, a, b, line=line)
        return c

    def parse_binary(self, minprec):
        lhs = self.parse_unary()
        while True:
            t = self.t
            if t.kind != 'op':
                break
            p = _BINPREC.get(t.val)
            if p is None or p < minprec:
                break
            if t.val in '+-':
                nx = self.peek()
                if nx.kind == 'op' and nx.val == ':':
                    break           # the "+:" / "-:" of an indexed part-select
            self.adv()
            rhs = self.parse_binary(p + 1)
            op = '~^' if t.val == '^~' else t.val
            lhs = Binary(op, lhs, rhs, line=t.line)
        return lhs

    def parse_unary(self):
        t = self.t
        if t.kind == 'op' and t.val in _UNARY:
            self.adv()
            arg = self.parse_unary()
            op = '~^' if t.val == '^~' else t.val
            return Unary(op, arg, line=t.line)
        return self.parse_primary()

    def parse_primary(self):
        t = self.t
        line = t.line
        if t.kind == 'num':
            self.adv()
            return t.val
        if t.kind == 'id':
            self.adv()
            if self.is_op('('):
                self.err('function calls are not supported')
            return self.parse_selects(Id(t.val, line=line))
        if t.kind == 'sysid':
            self.adv()
            if t.val not in ('$signed', '$unsigned'):
                self.err('system function %s is not supported' % t.val, t)
            self.expect_op('(', 'after %s' % t.val)
            a = self.parse_expr()
            self.expect_op(')', 'closing %s' % t.val)
            return SysCall(t.val, [a], line=line)
        if t.kind == 'op':
            if t.val == '(':
                self.adv()
                e = self.parse_expr()
                if self.is_op(':'):
                    self.err('min:typ:max expressions are not supported')
                self.expect_op(')', 'closing parenthesis')
                return e
            if t.val == '{':
                self.adv()
                if self.is_op('}'):
                    self.err('empty concatenation')
                first = self.parse_expr()
                if self.is_op('{'):
                    # replication {n{a,b}}
                    self.adv()
                    parts = [self.parse_expr()]
                    while self.accept_op(','):
                        parts.append(self.parse_expr())
                    self.expect_op('}', 'closing replication body')
                    self.expect_op('}', 'closing replication')
                    return Repl(first, parts, line=line)
                parts = [first]
                while self.accept_op(','):
                    parts.append(self.parse_expr())
                self.expect_op('}', 'closing concatenation')
                node = Concat(parts, line=line)
                if self.is_op('['):
                    self.err('select of a concatenation is not supported')
                return node
        if t.kind == 'kw':
            raise VReservedWord(t.val, 'identifier in an expression', line)
        self.err('expected expression but found %s' % self.describe())


def parse(text):
    """Parse Verilog source text into a list of Module objects."""
    if not isinstance(text, str):
        raise TypeError('parse() expects str')
    old = sys.getrecursionlimit()
    if old < 20000:
        sys.setrecursionlimit(20000)
    try:
        return Parser(text).parse_source()
    finally:
        sys.setrecursionlimit(old)

"""vsim: a small Verilog-2005 subset front end and 4-state event-driven simulator.

    mods   = parse(text)
    design = elaborate(mods, 'Top', blackboxes=())
    sim    = Sim(design, rng=random.Random(1))
"""
from .parser import parse, VError, VParseError, VElabError, VReservedWord, Module, KEYWORDS_2005
from .elab import elaborate, Design
from .sim import Sim, VSimOscillation

__all__ = ['parse', 'elaborate', 'Sim', 'VError', 'VParseError', 'VElabError', 'VReservedWord',
           'VSimOscillation', 'Module', 'Design', 'KEYWORDS_2005']

"""Builds py4hw designs and their emitted Verilog; used by selftest section (f).

Nothing here is part of the oracle itself.  py4hw output is a *test input*, never ground truth.
"""
import contextlib
import io
import os
import sys


def _quiet(fn):
    buf = io.StringIO()
    with contextlib.redirect_stdout(buf):
        return fn()


class Sample(object):
    def __init__(self, name, hw, dut, wires, ins, outs, text, error):
        self.name = name
        self.hw = hw
        self.dut = dut
        self.wires = wires
        self.ins = ins
        self.outs = outs
        self.text = text
        self.error = error     # generator exception text, if py4hw itself failed


def build(name, builder, ins, outs):
    import py4hw
    hw = py4hw.HWSystem()
    W = {}
    for n, w in ins + outs:
        W[n] = hw.wire(n, w)

    class Dut(py4hw.Logic):
        def __init__(self, parent, iname):
            super().__init__(parent, iname)
            L = {}
            for n, w in ins:
                L[n] = self.addIn(n, W[n])
            for n, w in outs:
                L[n] = self.addOut(n, W[n])
            builder(self, L)
    try:
        dut = _quiet(lambda: Dut(hw, 'dut'))
        text = _quiet(lambda: py4hw.VerilogGenerator(dut).getVerilogForHierarchy(noInstanceNumberInTopEntity=True))
        return Sample(name, hw, dut, W, ins, outs, text, None)
    except Exception as e:       # py4hw failed to build / generate
        return Sample(name, hw, None, W, ins, outs, None, '%s: %s' % (type(e).__name__, e))


def all_samples():
    import py4hw
    from py4hw.logic.arithmetic_fp import FPAdder_SP
    from py4hw.logic.clock import AutoReset, ClockDivider, EdgeDetector
    from py4hw.logic.protocol.uart.serdes import UARTSerializer, UARTDeserializer
    S = []

    def add(name, builder, ins, outs):
        S.append(build(name, builder, ins, outs))

    ab8 = [('a', 8), ('b', 8)]
    add('Add', lambda p, L: py4hw.Add(p, 'add', L['a'], L['b'], L['r']), ab8, [('r', 8)])
    add('AddWide', lambda p, L: py4hw.Add(p, 'add', L['a'], L['b'], L['r']), ab8, [('r', 9)])
    add('Sub', lambda p, L: py4hw.Sub(p, 'sub', L['a'], L['b'], L['r']), ab8, [('r', 8)])
    add('Mul', lambda p, L: py4hw.Mul(p, 'mul', L['a'], L['b'], L['r']), ab8, [('r', 16)])
    add('SignedMul', lambda p, L: py4hw.SignedMul(p, 'mul', L['a'], L['b'], L['r']), ab8, [('r', 16)])
    add('Div', lambda p, L: py4hw.Div(p, 'div', L['a'], L['b'], L['r']), ab8, [('r', 8)])
    add('Mux2', lambda p, L: py4hw.Mux2(p, 'm', L['s'], L['a'], L['b'], L['r']),
        [('s', 1), ('a', 8), ('b', 8)], [('r', 8)])
    add('Mux4', lambda p, L: py4hw.Mux(p, 'm', L['s'], [L['a'], L['b'], L['c'], L['d']], L['r']),
        [('s', 2), ('a', 8), ('b', 8), ('c', 8), ('d', 8)], [('r', 8)])
    abc8 = [('a', 8), ('b', 8), ('c', 8)]
    add('And3', lambda p, L: py4hw.And(p, 'g', [L['a'], L['b'], L['c']], L['r']), abc8, [('r', 8)])
    add('Or3', lambda p, L: py4hw.Or(p, 'g', [L['a'], L['b'], L['c']], L['r']), abc8, [('r', 8)])
    add('Xor3', lambda p, L: py4hw.Xor(p, 'g', [L['a'], L['b'], L['c']], L['r']), abc8, [('r', 8)])
    add('Not', lambda p, L: py4hw.Not(p, 'g', L['a'], L['r']), [('a', 8)], [('r', 8)])
    add('Equal', lambda p, L: py4hw.Equal(p, 'g', L['a'], L['b'], L['r']), ab8, [('r', 1)])
    add('Comparator', lambda p, L: py4hw.Comparator(p, 'g', L['a'], L['b'], L['gt'], L['eq'], L['lt']),
        ab8, [('gt', 1), ('eq', 1), ('lt', 1)])
    add('ShiftLeft', lambda p, L: py4hw.ShiftLeft(p, 'g', L['a'], L['b'], L['r']), [('a', 8), ('b', 3)], [('r', 8)])
    add('ShiftRight', lambda p, L: py4hw.ShiftRight(p, 'g', L['a'], L['b'], L['r']), [('a', 8), ('b', 3)], [('r', 8)])
    add('ShiftRightArith', lambda p, L: py4hw.ShiftRight(p, 'g', L['a'], L['b'], L['r'], arithmetic=True),
        [('a', 8), ('b', 3)], [('r', 8)])
    add('ShiftLeftConstant', lambda p, L: py4hw.ShiftLeftConstant(p, 'g', L['a'], 3, L['r']), [('a', 8)], [('r', 8)])
    add('SignExtend', lambda p, L: py4hw.SignExtend(p, 'g', L['a'], L['r']), [('a', 8)], [('r', 16)])
    add('ZeroExtend', lambda p, L: py4hw.ZeroExtend(p, 'g', L['a'], L['r']), [('a', 8)], [('r', 16)])
    add('ConcatenateMSBF', lambda p, L: py4hw.ConcatenateMSBF(p, 'g', [L['a'], L['b']], L['r']),
        [('a', 8), ('b', 4)], [('r', 12)])
    add('ConcatenateLSBF', lambda p, L: py4hw.ConcatenateLSBF(p, 'g', [L['a'], L['b']], L['r']),
        [('a', 8), ('b', 4)], [('r', 12)])
    add('Range', lambda p, L: py4hw.Range(p, 'g', L['a'], 6, 2, L['r']), [('a', 8)], [('r', 5)])
    add('Bit', lambda p, L: py4hw.Bit(p, 'g', L['a'], 3, L['r']), [('a', 8)], [('r', 1)])
    add('BitsLSBF', lambda p, L: py4hw.BitsLSBF(p, 'g', L['a'], [L['r0'], L['r1'], L['r2']]),
        [('a', 3)], [('r0', 1), ('r1', 1), ('r2', 1)])
    add('Repeat', lambda p, L: py4hw.Repeat(p, 'g', L['a'], L['r']), [('a', 1)], [('r', 8)])
    add('Constant', lambda p, L: py4hw.Constant(p, 'g', 0x5A, L['r']), [], [('r', 8)])
    add('Constant1', lambda p, L: py4hw.Constant(p, 'g', 1, L['r']), [], [('r', 1)])
    add('Reg', lambda p, L: py4hw.Reg(p, 'g', L['d'], L['q']), [('d', 8)], [('q', 8)])
    add('RegER', lambda p, L: py4hw.Reg(p, 'g', L['d'], L['q'], enable=L['e'], reset=L['rst'], reset_value=5),
        [('d', 8), ('e', 1), ('rst', 1)], [('q', 8)])
    add('RegE', lambda p, L: py4hw.Reg(p, 'g', L['d'], L['q'], enable=L['e']), [('d', 8), ('e', 1)], [('q', 8)])
    add('RegR', lambda p, L: py4hw.Reg(p, 'g', L['d'], L['q'], reset=L['rst']), [('d', 8), ('rst', 1)], [('q', 8)])
    add('Counter', lambda p, L: py4hw.Counter(p, 'g', L['rst'], L['inc'], L['q']),
        [('rst', 1), ('inc', 1)], [('q', 8)])
    add('ModuloCounter', lambda p, L: py4hw.ModuloCounter(p, 'g', 5, L['rst'], L['inc'], L['q'], L['co']),
        [('rst', 1), ('inc', 1)], [('q', 8), ('co', 1)])
    add('TReg', lambda p, L: py4hw.TReg(p, 'g', L['t'], L['q'], enable=L['e'], reset=L['rst']),
        [('t', 1), ('e', 1), ('rst', 1)], [('q', 1)])
    add('DelayLine', lambda p, L: py4hw.DelayLine(p, 'g', L['a'], L['e'], L['rst'], L['r'], 3),
        [('a', 8), ('e', 1), ('rst', 1)], [('r', 8)])
    mem_in = [('ra', 4), ('wa', 4), ('w', 1), ('wd', 8)]
    add('SynchronousMemory', lambda p, L: py4hw.SynchronousMemory(p, 'g', L['ra'], L['wa'], L['w'], L['rd'], L['wd']),
        mem_in, [('rd', 8)])
    add('AsynchronousMemory', lambda p, L: py4hw.AsynchronousMemory(p, 'g', L['ra'], L['wa'], L['w'], L['rd'], L['wd']),
        mem_in, [('rd', 8)])
    for dirn in ('pos', 'neg', 'both'):
        add('EdgeDetector_' + dirn, (lambda dd: lambda p, L: EdgeDetector(p, 'g', L['a'], L['r'], dd))(dirn),
            [('a', 1)], [('r', 1)])
    add('ClockDivider', lambda p, L: ClockDivider(p, 'g', 100, 10, L['clkout']), [], [('clkout', 1)])
    add('ClockDividerReset', lambda p, L: ClockDivider(p, 'g', 100, 10, L['clkout'], reset=L['rst']),
        [('rst', 1)], [('clkout', 1)])
    add('FPAdder_SP', lambda p, L: FPAdder_SP(p, 'g', L['a'], L['b'], L['r']), [('a', 32), ('b', 32)], [('r', 32)])
    add('AutoReset', lambda p, L: AutoReset(p, 'g', L['reset']), [], [('reset', 1)])
    add('UARTSerializer', lambda p, L: UARTSerializer(p, 'g', L['ready'], L['valid'], L['v'], L['ucp'], L['tx']),
        [('valid', 1), ('v', 8), ('ucp', 1)], [('ready', 1), ('tx', 1)])
    add('UARTDeserializer',
        lambda p, L: UARTDeserializer(p, 'g', L['rx'], L['rx_sample'], L['ready'], L['valid'], L['v'], L['cd']),
        [('rx', 1), ('rx_sample', 1), ('ready', 1)], [('valid', 1), ('v', 8), ('cd', 1)])
    # behavioural blocks of /repo/test/unit/Test_RtlGeneration.py (transpiler needs the real file)
    tdir = '/repo/test/unit'
    if os.path.isdir(tdir):
        if tdir not in sys.path:
            sys.path.insert(0, tdir)
        T = _quiet(lambda: __import__('Test_RtlGeneration'))
        add('CounterBehavioural', lambda p, L: T.CounterBehavioural(p, 'g', L['inc'], L['q']), [('inc', 1)], [('q', 32)])
        add('SelectType', lambda p, L: T.SelectType(p, 'g', L['op'], L['q']), [('op', 7)], [('q', 3)])

        def axi(p, L):
            from py4hw.emulation.vitiswrapping import Axi2ClkFSM
            Axi2ClkFSM(p, 'fsm', L['ah'], L['ct'], L['rcc'], L['cc'], L['co'], L['lo'])
        add('Axi2ClkFSM', axi, [('ah', 1), ('ct', 64), ('rcc', 1)], [('cc', 64), ('co', 1), ('lo', 1)])
    return S


def gated_clock_text():
    """GatedClock module text as emitted by py4hw (BodyGatedClock) + a hand-written user."""
    import py4hw
    from py4hw.logic.clock import GatedClock
    hw = py4hw.HWSystem()
    en = hw.wire('en')
    eno = hw.wire('eno')
    gclkw = hw.wire('gclk')
    drv = py4hw.ClockDriver('gclk', base=hw.clockDriver, enable=eno, wire=gclkw)
    g = GatedClock(hw, 'gate', en, eno, drv)
    body = _quiet(lambda: py4hw.VerilogGenerator(g).getVerilog(g, noInstanceNumber=True))
    top = '''
module Dut (input clk, input en, output [7:0] q);
wire gclk;
wire eno;
reg [7:0] cnt = 0;
GatedClock i_gate(.clk_in(clk),.clk_out(gclk),.enin(en),.enout(eno));
always @(posedge gclk) cnt <= cnt + 1;
assign q = cnt;
endmodule
'''
    return top + body

"""Expression typing (IEEE 1364-2005 5.4/5.5) and compilation to closures.

A value is a tuple (val, xmask); invariant val & xmask == 0, both < 2**width.
Compiled closures take the simulator state `st` (st.S = list of values,
memories are lists of values) and return a value at exactly the context width.
"""
from .parser import (VElabError, Num, Id, Index, PartSel, IdxPartSel, Concat, Repl,
                     Unary, Binary, Cond, SysCall)

ARITH = frozenset(['+', '-', '*', '/', '%'])
BITWISE = frozenset(['&', '|', '^', '~^'])
SHIFT = frozenset(['<<', '>>', '<<<', '>>>'])
RELAT = frozenset(['<', '<=', '>', '>='])
EQUAL = frozenset(['==', '!=', '===', '!=='])
LOGIC = frozenset(['&&', '||'])
REDUCT = frozenset(['&', '~&', '|', '~|', '^', '~^'])

X1 = (0, 1)
ZERO1 = (0, 0)
ONE1 = (1, 0)


class Const(object):
    """A resolved parameter / constant."""
    __slots__ = ('val', 'xm', 'width', 'signed')

    def __init__(self, val, xm, width, signed):
        self.val = val
        self.xm = xm
        self.width = width
        self.signed = signed

    def as_int(self):
        if self.xm:
            return None
        if self.signed and self.val >> (self.width - 1):
            return self.val - (1 << self.width)
        return self.val


class Sym(object):
    """Module-local view of a declared name."""
    __slots__ = ('name', 'kind', 'direction', 'sig', 'width', 'signed', 'msb', 'lsb',
                 'is_mem', 'mem_a', 'mem_b', 'line', 'is_integer', 'scalar')

    def __init__(self, name, kind, direction, sig, width, signed, msb, lsb, line,
                 is_mem=False, mem_a=0, mem_b=0, is_integer=False, scalar=False):
        self.scalar = scalar        # declared without a range (a bit- or part-select of it is illegal, IEEE 1364-2005 5.2.1)
        self.name = name
        self.kind = kind            # 'net' | 'var'
        self.direction = direction  # None | input | output | inout
        self.sig = sig              # index into state
        self.width = width
        self.signed = signed
        self.msb = msb
        self.lsb = lsb
        self.is_mem = is_mem
        self.mem_a = mem_a          # declared [a:b]
        self.mem_b = mem_b
        self.line = line
        self.is_integer = is_integer

    @property
    def depth(self):
        return abs(self.mem_a - self.mem_b) + 1

    @property
    def mem_lo(self):
        return min(self.mem_a, self.mem_b)

    def pos(self, idx):
        """bit position (0 = LSB) of declared index idx (may be out of range)."""
        return idx - self.lsb if self.msb >= self.lsb else self.lsb - idx


class T(object):
    """Typed expression node."""
    __slots__ = ('k', 'w', 's', 'a', 'line')

    def __init__(self, k, w, s, a, line=None):
        self.k = k
        self.w = w
        self.s = s
        self.a = a
        self.line = line


class Ctx(object):
    """Analysis context: name lookup + read collection."""

    def __init__(self, lookup, const_only=False, where=''):
        self.lookup = lookup        # name -> Sym | Const | None
        self.const_only = const_only
        self.reads = []             # signal indices read (may repeat)
        self.read_names = []        # local names read
        self.where = where


def _err(rule, msg, line=None):
    raise VElabError(rule, msg, line)


# --------------------------------------------------------------------------- analysis


def analyze(e, cx, in_concat=False):
    line = getattr(e, 'line', None)
    if isinstance(e, Num):
        if e.width is None:
            if in_concat:
                _err('unsized-in-concat', 'unsized constant inside a concatenation', line)
            w = e.nat_width
        else:
            w = e.width
        return T('num', w, e.signed, e, line)
    if isinstance(e, Id):
        o = cx.lookup(e.name)
        if o is None:
            _err('undeclared-identifier', "identifier '%s' is not declared%s" % (e.name, cx.where), line)
        if isinstance(o, Const):
            return T('const', o.width, o.signed, o, line)
        if cx.const_only:
            _err('non-constant', "'%s' is not a constant (parameter) but is used in a constant expression"
                 % e.name, line)
        if o.is_mem:
            _err('bad-memory-use', "memory '%s' used without an index" % e.name, line)
        cx.reads.append(o.sig)
        cx.read_names.append(o.name)
        return T('sig', o.width, o.signed, o, line)
    if isinstance(e, (Index, PartSel, IdxPartSel)):
        return _an_select(e, cx)
    if isinstance(e, Concat):
        parts = [analyze(p, cx, True) for p in e.parts]
        parts = [p for p in parts if p.w > 0]
        w = sum(p.w for p in parts)
        if w == 0:
            _err('zero-width', 'concatenation of zero width', line)
        return T('concat', w, False, parts, line)
    if isinstance(e, Repl):
        n = const_int(e.count, cx, 'replication count')
        if n < 0:
            _err('bad-replication', 'negative replication count', line)
        parts = [analyze(p, cx, True) for p in e.parts]
        iw = sum(p.w for p in parts)
        if n * iw == 0 and not in_concat:
            _err('zero-width', 'replication of zero width outside a concatenation', line)
        return T('repl', n * iw, False, (n, iw, parts), line)
    if isinstance(e, Unary):
        a = analyze(e.arg, cx)
        if e.op in ('+', '-', '~'):
            return T('un', a.w, a.s, (e.op, a), line)
        if e.op == '!':
            return T('not', 1, False, a, line)
        return T('red', 1, False, (e.op, a), line)
    if isinstance(e, Binary):
        l = analyze(e.lhs, cx)
        r = analyze(e.rhs, cx)
        op = e.op
        if op in ARITH or op in BITWISE:
            return T('bin', max(l.w, r.w), l.s and r.s, (op, l, r), line)
        if op in SHIFT or op == '**':
            return T('shift' if op != '**' else 'pow', l.w, l.s, (op, l, r), line)
        if op in RELAT or op in EQUAL:
            return T('cmp', 1, False, (op, l, r), line)
        if op in LOGIC:
            return T('logic', 1, False, (op, l, r), line)
        _err('unsupported', "operator '%s'" % op, line)
    if isinstance(e, Cond):
        c = analyze(e.cond, cx)
        a = analyze(e.then, cx)
        b = analyze(e.els, cx)
        return T('cond', max(a.w, b.w), a.s and b.s, (c, a, b), line)
    if isinstance(e, SysCall):
        a = analyze(e.args[0], cx)
        return T('cast', a.w, e.name == '$signed', a, line)
    _err('unsupported', 'expression %r' % (e,), line)


def const_value(e, cx):
    """Evaluate a constant expression -> Const."""
    sub = Ctx(cx.lookup, True, cx.where)
    t = analyze(e, sub)
    v, x = gen(t, t.w, t.s)(None)
    return Const(v, x, t.w, t.s)


def const_int(e, cx, what):
    c = const_value(e, cx)
    v = c.as_int()
    if v is None:
        _err('non-constant', '%s contains x/z bits' % what, getattr(e, 'line', None))
    return v


def _an_select(e, cx):
    line = e.line
    base = e.base
    # resolve the base: identifier (vector or memory) or memory word
    if isinstance(base, Id):
        o = cx.lookup(base.name)
        if o is None:
            _err('undeclared-identifier', "identifier '%s' is not declared%s" % (base.name, cx.where), line)
        if isinstance(o, Const):
            bt = T('const', o.width, o.signed, o, line)
            sym = Sym(base.name, 'net', None, -1, o.width, o.signed, o.width - 1, 0, line)
        else:
            if cx.const_only:
                _err('non-constant', "'%s' is not a constant" % base.name, line)
            sym = o
            cx.reads.append(o.sig)
            cx.read_names.append(o.name)
            if o.is_mem:
                if not isinstance(e, Index):
                    _err('bad-memory-use', "part-select directly on memory '%s'" % o.name, line)
                idx = analyze(e.idx, cx)
                return T('memword', o.width, o.signed, (o, idx), line)
            if o.scalar:
                _err('select-of-scalar', "bit- or part-select of '%s', which is declared without a range%s" % (o.name, cx.where), line)
            bt = T('sig', o.width, o.signed, o, line)
    elif isinstance(base, Index):
        bt = _an_select(base, cx)
        if bt.k != 'memword':
            _err('unsupported', 'select of a bit-select', line)
        m = bt.a[0]
        sym = Sym(m.name, m.kind, None, m.sig, m.width, m.signed, m.msb, m.lsb, line)
    else:
        _err('unsupported', 'select of this expression', line)
    if isinstance(e, Index):
        idx = analyze(e.idx, cx)
        return T('bitsel', 1, False, (bt, sym, idx), line)
    if isinstance(e, PartSel):
        m = const_int(e.msb, cx, 'part-select bound')
        l = const_int(e.lsb, cx, 'part-select bound')
        desc = sym.msb >= sym.lsb
        if m != l and ((m > l) != desc) and sym.width > 1:
            _err('bad-part-select', "part-select [%d:%d] of '%s' reverses the declared direction [%d:%d]"
                 % (m, l, sym.name, sym.msb, sym.lsb), line)
        if sym.width == 1 and m < l:
            m, l = l, m
        lo = min(sym.pos(m), sym.pos(l))
        w = abs(m - l) + 1
        return T('partsel', w, False, (bt, sym, lo, w), line)
    # indexed part-select
    w = const_int(e.width, cx, 'indexed part-select width')
    if w <= 0:
        _err('bad-part-select', 'indexed part-select width must be positive', line)
    st = analyze(e.start, cx)
    return T('idxsel', w, False, (bt, sym, st, w, e.up), line)


# --------------------------------------------------------------------------- codegen helpers


def _sext(f, w, W):
    """sign-extend the w-bit result of f to W bits."""
    if W <= w:
        return f
    hi = ((1 << W) - 1) ^ ((1 << w) - 1)
    sb = 1 << (w - 1)

    def g(st):
        v, x = f(st)
        if x & sb:
            return v, x | hi
        if v & sb:
            return v | hi, x
        return v, x
    return g


def _konst(v, x):
    c = (v, x)
    return lambda st: c


def _ext_const(v, x, w, W, signed, xfill=False):
    if W > w:
        hi = ((1 << W) - 1) ^ ((1 << w) - 1)
        sb = 1 << (w - 1)
        if xfill and (x & sb):
            x |= hi
        elif signed:
            if x & sb:
                x |= hi
            elif v & sb:
                v |= hi
    m = (1 << W) - 1
    return v & m & ~x, x & m


def _truth(v, x):
    """0, 1 or 2 (=x)."""
    if v:
        return 1
    if x:
        return 2
    return 0


_TR = (ZERO1, ONE1, X1)


def _to_signed(v, w):
    return v - (1 << w) if v >> (w - 1) else v


def _index_value(t):
    """closure returning python int index or None (x)."""
    f = gen(t, t.w, t.s)
    if t.s:
        w = t.w

        def g(st):
            v, x = f(st)
            if x:
                return None
            return v - (1 << w) if v >> (w - 1) else v
    else:
        def g(st):
            v, x = f(st)
            if x:
                return None
            return v
    return g


def _static_index(t):
    """python int if the typed index expression is a compile-time constant, else None."""
    if t.k in ('num', 'const'):
        v, x = gen(t, t.w, t.s)(None)
        if x:
            return 'x'
        return _to_signed(v, t.w) if t.s else v
    return None


# --------------------------------------------------------------------------- codegen


def gen(t, W, S):
    """Compile typed node t in a context of width W and (expression) signedness S."""
    k = t.k
    if W < t.w:
        raise AssertionError('context narrower than operand')
    M = (1 << W) - 1
    if k == 'num':
        n = t.a
        v, x = _ext_const(n.val, n.xmask | n.zmask, t.w, W, S, n.xfill)
        return _konst(v, x)
    if k == 'const':
        c = t.a
        v, x = _ext_const(c.val, c.xm, c.width, W, S)
        return _konst(v, x)
    if k == 'bin':
        op, l, r = t.a
        return _gen_bin(op, gen(l, W, S), gen(r, W, S), W, S)
    if k == 'un':
        op, a = t.a
        f = gen(a, W, S)
        if op == '+':
            return f
        if op == '-':
            def neg(st):
                v, x = f(st)
                if x:
                    return 0, M
                return (-v) & M, 0
            return neg

        def inv(st):
            v, x = f(st)
            return ~v & M & ~x, x
        return inv
    if k == 'cond':
        c, a, b = t.a
        cf = gen(c, c.w, c.s)
        af = gen(a, W, S)
        bf = gen(b, W, S)

        def cond(st):
            v, x = cf(st)
            if v:
                return af(st)
            if not x:
                return bf(st)
            av, ax = af(st)
            bv, bx = bf(st)
            rx = ax | bx | (av ^ bv)
            return av & ~rx, rx
        return cond
    if k == 'shift':
        op, l, r = t.a
        lf = gen(l, W, S)
        rf = gen(r, r.w, r.s)
        return _gen_shift(op, lf, rf, W, S)
    if k == 'pow':
        op, l, r = t.a
        return _gen_pow(gen(l, W, S), gen(r, r.w, r.s), W, S, r.w, r.s)
    # ---- everything below is a self-determined operand: compute at own width, then extend
    f = _gen_self(t)
    if S and W > t.w:
        return _sext(f, t.w, W)
    return f


def _gen_bin(op, lf, rf, W, S):
    M = (1 << W) - 1
    if op == '&':
        def f(st):
            av, ax = lf(st)
            bv, bx = rf(st)
            if not (ax | bx):
                return av & bv, 0
            r1 = av & bv
            r0 = (~(av | ax) | ~(bv | bx)) & M
            return r1, M & ~(r1 | r0)
        return f
    if op == '|':
        def f(st):
            av, ax = lf(st)
            bv, bx = rf(st)
            if not (ax | bx):
                return av | bv, 0
            r1 = av | bv
            return r1, (ax | bx) & ~r1
        return f
    if op == '^':
        def f(st):
            av, ax = lf(st)
            bv, bx = rf(st)
            rx = ax | bx
            return (av ^ bv) & ~rx, rx
        return f
    if op == '~^':
        def f(st):
            av, ax = lf(st)
            bv, bx = rf(st)
            rx = ax | bx
            return ~(av ^ bv) & M & ~rx, rx
        return f
    if op == '+':
        def f(st):
            av, ax = lf(st)
            bv, bx = rf(st)
            if ax | bx:
                return 0, M
            return (av + bv) & M, 0
        return f
    if op == '-':
        def f(st):
            av, ax = lf(st)
            bv, bx = rf(st)
            if ax | bx:
                return 0, M
            return (av - bv) & M, 0
        return f
    if op == '*':
        def f(st):
            av, ax = lf(st)
            bv, bx = rf(st)
            if ax | bx:
                return 0, M
            return (av * bv) & M, 0      # two's complement: low W bits are sign-agnostic
        return f
    if op in ('/', '%'):
        div = op == '/'
        H = 1 << (W - 1)
        F = 1 << W

        def f(st):
            av, ax = lf(st)
            bv, bx = rf(st)
            if ax | bx or bv == 0:
                return 0, M
            if S:
                if av & H:
                    av -= F
                if bv & H:
                    bv -= F
                q = abs(av) // abs(bv)
                if (av < 0) != (bv < 0):
                    q = -q
                if div:
                    return q & M, 0
                return (av - q * bv) & M, 0      # sign of the first operand
            if div:
                return av // bv, 0
            return av % bv, 0
        return f
    raise AssertionError(op)


def _gen_shift(op, lf, rf, W, S):
    M = (1 << W) - 1
    if op in ('<<', '<<<'):
        def f(st):
            n, nx = rf(st)
            if nx:
                return 0, M
            v, x = lf(st)
            if n >= W:
                return 0, 0
            return (v << n) & M, (x << n) & M
        return f
    arith = op == '>>>' and S
    sb = 1 << (W - 1)

    def f(st):
        n, nx = rf(st)
        if nx:
            return 0, M
        v, x = lf(st)
        if not arith or not ((v | x) & sb):
            if n >= W:
                return 0, 0
            return v >> n, x >> n
        if n >= W:
            n = W
        fill = M ^ (M >> n)
        if x & sb:
            return v >> n, (x >> n) | fill
        return (v >> n) | fill, x >> n
    return f


def _gen_pow(lf, rf, W, S, rw, rs):
    M = (1 << W) - 1

    def f(st):
        a, ax = lf(st)
        b, bx = rf(st)
        if ax | bx:
            return 0, M
        if S:
            a = _to_signed(a, W)
        if rs:
            b = _to_signed(b, rw)
        if b >= 0:
            if b > 4 * W and abs(a) > 1:
                # avoid astronomically large intermediates
                return pow(a, b, 1 << W) & M, 0
            return (a ** b) & M, 0
        # negative exponent, table 5-6
        if a == 0:
            return 0, M
        if a == 1:
            return 1, 0
        if a == -1:
            return (1 if b % 2 == 0 else -1) & M, 0
        return 0, 0
    return f


def _gen_self(t):
    """closure computing node t at its own width with its own type (no extension)."""
    k = t.k
    w = t.w
    m = (1 << w) - 1
    if k == 'sig':
        i = t.a.sig
        return lambda st: st.S[i]
    if k == 'memword':
        sym, idx = t.a
        i = sym.sig
        lo = sym.mem_lo
        depth = sym.depth
        xv = (0, m)
        ixf = _index_value(idx)

        def rd(st):
            a = ixf(st)
            if a is None:
                return xv
            a -= lo
            if a < 0 or a >= depth:
                return xv
            return st.S[i][a]
        return rd
    if k == 'bitsel':
        bt, sym, idx = t.a
        bf = _gen_self(bt) if bt.k != 'const' else gen(bt, bt.w, bt.s)
        bw = sym.width
        si = _static_index(idx)
        if si is not None:
            if si == 'x':
                return _konst(0, 1)
            p = sym.pos(si)
            if p < 0 or p >= bw:
                return _konst(0, 1)

            def bs(st):
                v, x = bf(st)
                return (v >> p) & 1, (x >> p) & 1
            return bs
        ixf = _index_value(idx)
        lsb = sym.lsb
        desc = sym.msb >= sym.lsb

        def bsv(st):
            a = ixf(st)
            if a is None:
                return X1
            p = a - lsb if desc else lsb - a
            if p < 0 or p >= bw:
                return X1
            v, x = bf(st)
            return (v >> p) & 1, (x >> p) & 1
        return bsv
    if k == 'partsel':
        bt, sym, lo, pw = t.a
        bf = _gen_self(bt) if bt.k != 'const' else gen(bt, bt.w, bt.s)
        return _slice_reader(bf, sym.width, lambda st: lo, pw, static_lo=lo)
    if k == 'idxsel':
        bt, sym, stt, pw, up = t.a
        bf = _gen_self(bt) if bt.k != 'const' else gen(bt, bt.w, bt.s)
        ixf = _index_value(stt)
        lsb = sym.lsb
        desc = sym.msb >= sym.lsb

        def lo_of(st):
            a = ixf(st)
            if a is None:
                return None
            lo_i, hi_i = (a, a + pw - 1) if up else (a - pw + 1, a)
            return lo_i - lsb if desc else lsb - hi_i
        si = _static_index(stt)
        if si is not None and si != 'x':
            return _slice_reader(bf, sym.width, lo_of, pw, static_lo=_static_lo(si, pw, up, lsb, desc))
        return _slice_reader(bf, sym.width, lo_of, pw)
    if k == 'concat':
        parts = [(gen(p, p.w, p.s), p.w) for p in t.a]
        if len(parts) == 1:
            return parts[0][0]

        def cc(st):
            v = x = 0
            for g, pw in parts:
                pv, px = g(st)
                v = (v << pw) | pv
                x = (x << pw) | px
            return v, x
        return cc
    if k == 'repl':
        n, iw, ps = t.a
        inner = _gen_self(T('concat', iw, False, [p for p in ps if p.w > 0]))
        mult = 0
        for j in range(n):
            mult |= 1 << (j * iw)

        def rp(st):
            v, x = inner(st)
            return v * mult, x * mult
        return rp
    if k == 'cast':
        a = t.a
        return gen(a, a.w, a.s)
    if k == 'not':
        a = t.a
        f = gen(a, a.w, a.s)

        def lnot(st):
            v, x = f(st)
            if v:
                return ZERO1
            if x:
                return X1
            return ONE1
        return lnot
    if k == 'red':
        op, a = t.a
        f = gen(a, a.w, a.s)
        am = (1 << a.w) - 1
        base = op[-1]
        invert = len(op) == 2

        def red(st):
            v, x = f(st)
            if base == '&':
                if (v | x) != am:
                    r = 0
                elif x:
                    r = 2
                else:
                    r = 1
            elif base == '|':
                if v:
                    r = 1
                elif x:
                    r = 2
                else:
                    r = 0
            else:
                if x:
                    r = 2
                else:
                    r = bin(v).count('1') & 1
            if invert and r != 2:
                r ^= 1
            return _TR[r]
        return red
    if k == 'logic':
        op, l, r = t.a
        lf = gen(l, l.w, l.s)
        rf = gen(r, r.w, r.s)
        if op == '&&':
            def land(st):
                a = _truth(*lf(st))
                if a == 0:
                    return ZERO1
                b = _truth(*rf(st))
                if b == 0:
                    return ZERO1
                if a == 1 and b == 1:
                    return ONE1
                return X1
            return land

        def lor(st):
            a = _truth(*lf(st))
            if a == 1:
                return ONE1
            b = _truth(*rf(st))
            if b == 1:
                return ONE1
            if a == 0 and b == 0:
                return ZERO1
            return X1
        return lor
    if k == 'cmp':
        op, l, r = t.a
        cw = max(l.w, r.w)
        cs = l.s and r.s
        lf = gen(l, cw, cs)
        rf = gen(r, cw, cs)
        return _gen_cmp(op, lf, rf, cw, cs)
    if k in ('bin', 'un', 'cond', 'shift', 'pow', 'num', 'const'):
        return gen(t, t.w, t.s)
    raise AssertionError(k)


def _static_lo(a, pw, up, lsb, desc):
    lo_i, hi_i = (a, a + pw - 1) if up else (a - pw + 1, a)
    return lo_i - lsb if desc else lsb - hi_i


def _slice_reader(bf, bw, lo_of, pw, static_lo=None):
    """read pw bits starting at bit position lo (may be partly/fully out of range -> x)."""
    pm = (1 << pw) - 1
    allx = (0, pm)

    def cut(v, x, lo):
        if lo >= bw or lo + pw <= 0:
            return allx
        if lo >= 0:
            v >>= lo
            x >>= lo
            over = lo + pw - bw
            if over > 0:
                keep = (1 << (pw - over)) - 1
                xm = pm ^ keep
                return v & keep & ~xm, (x & keep) | xm
            return v & pm, x & pm
        # lo < 0: low -lo bits are out of range
        sh = -lo
        v = (v << sh) & pm
        x = ((x << sh) | ((1 << sh) - 1)) & pm
        over = lo + pw - bw
        if over > 0:
            keep = (1 << (pw - over)) - 1
            x |= pm ^ keep
        return v & ~x, x
    if static_lo is not None:
        lo = static_lo
        if 0 <= lo and lo + pw <= bw:
            def rs(st):
                v, x = bf(st)
                return (v >> lo) & pm, (x >> lo) & pm
            return rs

        def rs2(st):
            v, x = bf(st)
            return cut(v, x, lo)
        return rs2

    def rv(st):
        lo = lo_of(st)
        if lo is None:
            return allx
        v, x = bf(st)
        return cut(v, x, lo)
    return rv


def _gen_cmp(op, lf, rf, W, S):
    H = 1 << (W - 1)
    F = 1 << W
    if op in ('===', '!=='):
        ne = op == '!=='

        def ce(st):
            a = lf(st)
            b = rf(st)
            return ONE1 if (a == b) != ne else ZERO1
        return ce
    if op in ('==', '!='):
        ne = op == '!='

        def eq(st):
            av, ax = lf(st)
            bv, bx = rf(st)
            xs = ax | bx
            if not xs:
                return ONE1 if (av == bv) != ne else ZERO1
            if (av ^ bv) & ~xs:
                return ONE1 if ne else ZERO1     # definite mismatch on a known bit
            return X1
        return eq

    def rel(st):
        av, ax = lf(st)
        bv, bx = rf(st)
        if ax | bx:
            return X1
        if S:
            if av & H:
                av -= F
            if bv & H:
                bv -= F
        if op == '<':
            r = av < bv
        elif op == '<=':
            r = av <= bv
        elif op == '>':
            r = av > bv
        else:
            r = av >= bv
        return ONE1 if r else ZERO1
    return rel


# --------------------------------------------------------------------------- lvalues
# An update is a tuple (sig, addr, lo, w, v, x): write w bits (v,x) at bit position lo of
# signal sig (addr = -1) or of word addr (0-based element) of memory sig.


class LV(object):
    __slots__ = ('width', 'segs', 'targets', 'simple')

    def __init__(self):
        self.width = 0
        self.segs = []      # [(fn(st, v, x, out), width)] MSB first
        self.targets = []   # [(Sym, mask|None, status)] status: 'ok' | 'variable' | 'outside'
        self.simple = None  # (sig, width) when the lvalue is one whole non-memory signal

    def prepare(self, st, v, x):
        out = []
        segs = self.segs
        if len(segs) == 1:
            segs[0][0](st, v, x, out)
            return out
        sh = self.width
        for fn, w in segs:
            sh -= w
            m = (1 << w) - 1
            fn(st, (v >> sh) & m, (x >> sh) & m, out)
        return out


def analyze_lvalue(e, cx):
    lv = LV()
    _lv_add(e, cx, lv)
    lv.width = sum(w for _, w in lv.segs)
    if len(lv.segs) == 1 and len(lv.targets) == 1:
        sym, mask, status = lv.targets[0]
        if mask == (1 << sym.width) - 1 and status == 'ok' and not sym.is_mem:
            lv.simple = (sym.sig, sym.width)
    return lv


def _lv_sym(name, cx, line):
    o = cx.lookup(name)
    if o is None:
        _err('undeclared-identifier', "identifier '%s' is not declared%s" % (name, cx.where), line)
    if isinstance(o, Const):
        _err('wrong-assignment-kind', "parameter '%s' used as an assignment target" % name, line)
    return o


def _clip_writer(sig, addr_of, bw, lo_of, pw):
    """segment writer for pw bits at (possibly run-time) position lo of a bw-bit word."""
    def wr(st, v, x, out):
        addr = -1
        if addr_of is not None:
            addr = addr_of(st)
            if addr is None:
                return
        lo = lo_of(st)
        if lo is None or lo >= bw or lo + pw <= 0:
            return
        w = pw
        if lo < 0:
            v >>= -lo
            x >>= -lo
            w += lo
            lo = 0
        if lo + w > bw:
            w = bw - lo
        m = (1 << w) - 1
        out.append((sig, addr, lo, w, v & m, x & m))
    return wr


def _mem_addr(sym, idx_t):
    ixf = _index_value(idx_t)
    lo = sym.mem_lo
    depth = sym.depth

    def addr(st):
        a = ixf(st)
        if a is None:
            return None
        a -= lo
        if a < 0 or a >= depth:
            return None
        return a
    return addr


def _lv_add(e, cx, lv):
    line = getattr(e, 'line', None)
    if isinstance(e, Concat):
        for p in e.parts:
            _lv_add(p, cx, lv)
        return
    if isinstance(e, Id):
        sym = _lv_sym(e.name, cx, line)
        if sym.is_mem:
            _err('bad-memory-use', "memory '%s' assigned without an index" % sym.name, line)
        sig = sym.sig
        w = sym.width

        def whole(st, v, x, out):
            out.append((sig, -1, 0, w, v, x))
        lv.segs.append((whole, w))
        lv.targets.append((sym, (1 << w) - 1, 'ok'))
        return
    if not isinstance(e, (Index, PartSel, IdxPartSel)):
        _err('bad-lvalue', 'expression is not a legal assignment target', line)
    base = e.base
    addr_of = None
    if isinstance(base, Index):
        # mem[a][...]
        if not isinstance(base.base, Id):
            _err('bad-lvalue', 'unsupported assignment target', line)
        sym = _lv_sym(base.base.name, cx, line)
        if not sym.is_mem:
            _err('bad-lvalue', "select of a bit-select of '%s'" % sym.name, line)
        addr_of = _mem_addr(sym, analyze(base.idx, cx))
    elif isinstance(base, Id):
        sym = _lv_sym(base.name, cx, line)
    else:
        _err('bad-lvalue', 'unsupported assignment target', line)
    sig = sym.sig
    bw = sym.width
    if sym.is_mem and addr_of is None:
        if not isinstance(e, Index):
            _err('bad-memory-use', "part-select directly on memory '%s'" % sym.name, line)
        addr_of = _mem_addr(sym, analyze(e.idx, cx))

        def word(st, v, x, out):
            a = addr_of(st)
            if a is not None:
                out.append((sig, a, 0, bw, v, x))
        lv.segs.append((word, bw))
        lv.targets.append((sym, None, 'ok'))
        return
    full = (1 << bw) - 1
    if sym.scalar and addr_of is None:
        _err('select-of-scalar', "bit- or part-select of '%s', which is declared without a range%s" % (sym.name, cx.where), line)
    if isinstance(e, Index):
        idx = analyze(e.idx, cx)
        si = _static_index(idx)
        if si is not None:
            p = None if si == 'x' else sym.pos(si)
            ok = p is not None and 0 <= p < bw
            lo_of = (lambda st: p) if ok else (lambda st: None)
            lv.targets.append((sym, (1 << p) if ok else 0, 'ok' if ok else 'outside'))
        else:
            ixf = _index_value(idx)
            lsb = sym.lsb
            desc = sym.msb >= sym.lsb

            def lo_of(st):
                a = ixf(st)
                if a is None:
                    return None
                return a - lsb if desc else lsb - a
            lv.targets.append((sym, full, 'variable'))
        lv.segs.append((_clip_writer(sig, addr_of, bw, lo_of, 1), 1))
        return
    if isinstance(e, PartSel):
        m = const_int(e.msb, cx, 'part-select bound')
        l = const_int(e.lsb, cx, 'part-select bound')
        desc = sym.msb >= sym.lsb
        if m != l and ((m > l) != desc) and bw > 1:
            _err('bad-part-select', "part-select [%d:%d] of '%s' reverses the declared direction [%d:%d]"
                 % (m, l, sym.name, sym.msb, sym.lsb), line)
        lo = min(sym.pos(m), sym.pos(l))
        pw = abs(m - l) + 1
        a = max(lo, 0)
        b = min(lo + pw, bw)
        mask = (((1 << (b - a)) - 1) << a) if b > a else 0
        lv.targets.append((sym, mask, 'ok' if mask else 'outside'))
        lv.segs.append((_clip_writer(sig, addr_of, bw, lambda st: lo, pw), pw))
        return
    pw = const_int(e.width, cx, 'indexed part-select width')
    if pw <= 0:
        _err('bad-part-select', 'indexed part-select width must be positive', line)
    stt = analyze(e.start, cx)
    lsb = sym.lsb
    desc = sym.msb >= sym.lsb
    up = e.up
    si = _static_index(stt)
    if si is not None and si != 'x':
        lo = _static_lo(si, pw, up, lsb, desc)
        a = max(lo, 0)
        b = min(lo + pw, bw)
        mask = (((1 << (b - a)) - 1) << a) if b > a else 0
        lv.targets.append((sym, mask, 'ok' if mask else 'outside'))
        lv.segs.append((_clip_writer(sig, addr_of, bw, lambda st: lo, pw), pw))
        return
    ixf = _index_value(stt)

    def lo_of2(st):
        a = ixf(st)
        if a is None:
            return None
        return _static_lo(a, pw, up, lsb, desc)
    lv.targets.append((sym, full, 'variable'))
    lv.segs.append((_clip_writer(sig, addr_of, bw, lo_of2, pw), pw))

"""dsim.progs - seeded generator of behavioural py4hw blocks (Python source) for C02.

The generated source stays inside the subset the property names: __init__ with
`self.x = self.addIn/addOut('x', x)` (attribute name = port name), integer state attributes,
constructor arguments kept as constants; clock() or propagate() bodies made of nested
if/elif/else, match/case on small integers with a default, conditions from comparisons and
and/or/not, expressions over + - * // % & | ^ << >>, locals, augmented assignment,
get/prepare/put.

Every expression is generated together with an interval [lo, hi]; an operator is only applied
when the interval of its result stays inside [0, 2**31): that is the property's own domain
(non-negative, at most 32 bits for locals and state).  Every arithmetic sub-expression
contains a literal, an integer variable or a constructor constant, so its Verilog context is
32 bits wide and no carry can be lost in a narrow context (the carve-out is a separate finding).
"""
LIMIT = (1 << 31) - 1


class E:
    __slots__ = ('src', 'lo', 'hi', 'wide')

    def __init__(self, src, lo, hi, wide):
        self.src, self.lo, self.hi, self.wide = src, lo, hi, wide   # wide: context is already >= 32 bits


def pow2ceil(v):
    return (1 << max(1, v.bit_length())) - 1


class ProgGen:
    def __init__(self, rng, seq=True):
        self.rng = rng
        self.seq = seq
        self.ins = []        # (name, width)
        self.outs = []       # (name, width)
        self.consts = []     # (name, value)
        self.params = []     # (name, value): Verilog parameters (addParameter / getParameterValue)
        self.state = []      # (name, init, bound)
        self.locals = []     # names
        self.env = {}        # var -> current hi bound (locals assigned so far, state)
        self.nloc = 0
        self.ternaries = True
        self.wide = True
        self.in_call = False
        self.wide_ins = []
        self.wide_outs = []
        self.guards = True

    # ---------------------------------------------------------------- expressions
    def leaf(self):
        r = self.rng.random()
        rng = self.rng
        if self.seq and self.outs and rng.random() < 0.08:
            small = [(n, w) for n, w in self.outs if w <= 16]
            if small:
                n, w = rng.choice(small)
                return E('self.%s.get()' % n, 0, (1 << w) - 1, False)     # the value the output carried before this edge
        if r < 0.35 and self.ins:
            n, w = rng.choice(self.ins)
            return E('self.%s.get()' % n, 0, (1 << w) - 1, False)
        if r < 0.55 and self.env:
            v = rng.choice(sorted(self.env))
            return E(v, 0, self.env[v], True)
        if r < 0.6 and self.params:
            n, v = rng.choice(self.params)
            return E("self.getParameterValue('%s')" % n, 0, v + 20, True)
        if r < 0.65 and self.consts:
            n, v = rng.choice(self.consts)
            # a constructor constant is treated as a range: another instance may be built with any value in [0, v + 20]
            return E('self.%s' % n, 0, v + 20, True)
        v = rng.choice([0, 1, 2, 3, 5, 7, 8, 15, 16, 100, 255, 256, 1000, 65535, rng.randint(0, 300)])
        return E(str(v), v, v, True)

    def widen(self, e):
        """make sure the Verilog context of an arithmetic expression is at least 32 bits"""
        if e.wide:
            return e
        return E('(%s + 0)' % e.src, e.lo, e.hi, True)

    def expr(self, depth=0):
        rng = self.rng
        if depth >= 2 or rng.random() < 0.3:
            return self.leaf()
        a = self.expr(depth + 1)
        b = self.expr(depth + 1)
        if self.ternaries and not self.in_call and rng.random() < 0.15:
            c = self.cond(2)
            return E('(%s if %s else %s)' % (a.src, c, b.src), min(a.lo, b.lo), max(a.hi, b.hi), a.wide and b.wide)
        for _ in range(6):
            op = rng.choice(['+', '+', '-', '*', '//', '%', '&', '|', '^', '<<', '>>'])
            if op == '+' and a.hi + b.hi <= LIMIT:
                a2, b2 = (self.widen(a), b) if not (a.wide or b.wide) else (a, b)
                return E('(%s + %s)' % (a2.src, b2.src), a.lo + b.lo, a.hi + b.hi, True)
            if op == '-':
                if a.lo >= b.hi:
                    a2 = self.widen(a) if not (a.wide or b.wide) else a
                    return E('(%s - %s)' % (a2.src, b.src), a.lo - b.hi, a.hi - b.lo, True)
                if a.hi + b.hi <= LIMIT:
                    return E('((%s + %d) - %s)' % (a.src, b.hi, b.src), a.lo, a.hi + b.hi, True)
            if op == '*' and a.hi * b.hi <= LIMIT:
                a2 = self.widen(a) if not (a.wide or b.wide) else a
                return E('(%s * %s)' % (a2.src, b.src), a.lo * b.lo, a.hi * b.hi, True)
            if op in ('//', '%'):
                d = b if b.lo >= 1 else E('(%s | 1)' % b.src, 1, b.hi | 1, b.wide)
                a2 = self.widen(a) if not (a.wide or d.wide) else a
                if op == '//':
                    return E('(%s // %s)' % (a2.src, d.src), 0, a.hi, True)
                return E('(%s %% %s)' % (a2.src, d.src), 0, min(a.hi, d.hi - 1), True)
            if op == '&':
                return E('(%s & %s)' % (a.src, b.src), 0, min(a.hi, b.hi), a.wide or b.wide)
            if op in ('|', '^'):
                return E('(%s %s %s)' % (a.src, op, b.src), 0, max(pow2ceil(a.hi), pow2ceil(b.hi)), a.wide or b.wide)
            if op == '<<':
                k = rng.randint(0, 8)
                if (a.hi << k) <= LIMIT:
                    a2 = self.widen(a)
                    return E('(%s << %d)' % (a2.src, k), a.lo << k, a.hi << k, True)
            if op == '>>':
                if rng.random() < 0.5:
                    k = rng.randint(0, 9)
                    return E('(%s >> %d)' % (self.widen(a).src, k), a.lo >> k, a.hi >> k, True)
                sh = E('(%s & 7)' % b.src, 0, 7, b.wide)
                return E('(%s >> %s)' % (self.widen(a).src, sh.src), 0, a.hi, True)
        return a

    def wide_expr(self, depth=0):
        """expression over ports wider than 32 bits and constants that need more than 32 bits; never stored in a local
        or state variable (those are 32-bit integers in Verilog), only handed to prepare()/put() of a wide output"""
        rng = self.rng
        # every intermediate must fit the narrowest context Verilog can give it: the narrowest wide port (40 bits; 72 and
        # more for the programs that work on buses wider than 64 bits)
        bits = getattr(self, 'wbits', 40)
        WLIM = (1 << bits) - 1
        if depth >= 2 or rng.random() < 0.3:
            r = rng.random()
            if r < 0.45 and self.wide_ins:
                n, w = rng.choice(self.wide_ins)
                if w > bits:
                    m = rng.choice([WLIM, (1 << (bits - 4)) - 1, 0xFF00FF00FF00FF00FF00FF00FF00FF00FF00FF & WLIM])
                    return E('(self.%s.get() & %d)' % (n, m), 0, m, True)
                return E('self.%s.get()' % n, 0, (1 << w) - 1, True)
            if r < 0.8:
                c = [(1 << 32) + 5, 0xFFFFFFFFFF, WLIM, 1 << 33, 0x123456789A, (1 << (bits - 2)) + rng.getrandbits(20), 0xFFFFFFFF, 1 << 31]
                if bits > 64:
                    c += [1 << 64, (1 << 64) + 5, (1 << 64) - 1, 1 << (bits - 1), (1 << (bits - 1)) | 0x5A5A, (0xDEADBEEFCAFEF00D << 8) | 0x12, WLIM ^ (1 << 64)]
                v = rng.choice(c)
                return E(str(v), v, v, True)
            return self.leaf()
        a, b = self.wide_expr(depth + 1), self.wide_expr(depth + 1)
        for _ in range(5):
            op = rng.choice(['&', '|', '^', '+', '>>', '<<'])
            if op == '&':
                return E('(%s & %s)' % (a.src, b.src), 0, min(a.hi, b.hi), True)
            if op in ('|', '^'):
                return E('(%s %s %s)' % (a.src, op, b.src), 0, max(pow2ceil(a.hi), pow2ceil(b.hi)), True)
            if op == '+' and a.hi + b.hi <= WLIM:
                return E('(%s + %s)' % (a.src, b.src), a.lo + b.lo, a.hi + b.hi, True)
            if op == '>>':
                k = rng.randint(0, bits - 4)
                return E('(%s >> %d)' % (a.src, k), a.lo >> k, a.hi >> k, True)
            if op == '<<':
                k = rng.randint(0, 12 if bits <= 64 else 40)
                if (a.hi << k) <= WLIM:
                    return E('(%s << %d)' % (a.src, k), a.lo << k, a.hi << k, True)
        return a

    def cond(self, depth=0):
        rng = self.rng
        r = rng.random()
        if depth < 2 and r < 0.25:
            op = rng.choice(['and', 'or'])
            n = rng.choice([2, 2, 3])
            return '(' + (' %s ' % op).join(self.cond(depth + 1) for _ in range(n)) + ')'
        if depth < 2 and r < 0.33:
            return '(not %s)' % self.cond(depth + 1)
        if r < 0.45:
            return self.leaf().src                       # truthiness of an integer
        a, b = self.expr(2), self.expr(2)
        if not (a.wide or b.wide):
            a = self.widen(a)
        return '(%s %s %s)' % (a.src, rng.choice(['==', '!=', '<', '<=', '>', '>=']), b.src)

    # ---------------------------------------------------------------- statements
    def stmts(self, depth, n, ind):
        out = []
        for _ in range(n):
            out.extend(self.stmt(depth, ind))
        return out

    def stmt(self, depth, ind):
        rng = self.rng
        pad = '    ' * ind
        r = rng.random()
        if r < 0.25 and depth < 3:
            lines = [pad + 'if %s:' % self.cond()]
            env0 = dict(self.env)
            lines += self.stmts(depth + 1, rng.randint(1, 3), ind + 1)
            envs = [self.env]
            self.env = dict(env0)
            for _ in range(rng.choice([0, 0, 1, 2])):
                lines.append(pad + 'elif %s:' % self.cond())
                lines += self.stmts(depth + 1, rng.randint(1, 2), ind + 1)
                envs.append(self.env)
                self.env = dict(env0)
            if rng.random() < 0.6:
                lines.append(pad + 'else:')
                lines += self.stmts(depth + 1, rng.randint(1, 2), ind + 1)
                envs.append(self.env)
            else:
                envs.append(dict(env0))
            self.merge(env0, envs)
            return lines
        if r < 0.33 and depth < 2 and self.state and self.seq:
            n, init, bound = rng.choice(self.state)
            if bound <= 7:
                lines = [pad + 'match self.%s:' % n]
                env0 = dict(self.env)
                envs = []
                for k in sorted(rng.sample(range(bound + 1), rng.randint(1, min(3, bound + 1)))):
                    if self.guards and rng.random() < 0.15:
                        lines.append(pad + '    case %d if %s:' % (k, self.cond(1)))
                    else:
                        lines.append(pad + '    case %d:' % k)
                    lines += self.stmts(depth + 2, rng.randint(1, 2), ind + 2)
                    envs.append(self.env)
                    self.env = dict(env0)
                lines.append(pad + '    case _:')
                lines += self.stmts(depth + 2, rng.randint(1, 2), ind + 2)
                envs.append(self.env)
                self.merge(env0, envs)
                return lines
        if r < 0.36 and self.wide_outs:
            n, w = rng.choice(self.wide_outs)
            return [pad + 'self.%s.%s(%s)' % (n, 'prepare' if self.seq else 'put', self.wide_expr().src)]
        if r < 0.55 and self.outs:
            n, w = rng.choice(self.outs)
            # the transpiler refuses an if-expression inside a call: keep them (mostly) out of prepare()/put() arguments
            self.in_call = rng.random() < 0.9
            e = self.expr()
            self.in_call = False
            return [pad + 'self.%s.%s(%s)' % (n, 'prepare' if self.seq else 'put', e.src)]
        if r < 0.8 and self.state and self.seq:
            n, init, bound = rng.choice(self.state)
            key = 'self.%s' % n
            e = self.expr()
            form = rng.random()
            if form < 0.5 or e.hi + self.env.get(key, bound) > LIMIT:
                m = pow2ceil(bound) if bound & (bound + 1) == 0 else None
                if m is not None and rng.random() < 0.7:
                    self.env[key] = min(e.hi, bound)
                    return [pad + '%s = (%s & %d)' % (key, e.src, bound)]
                self.env[key] = min(e.hi, bound)
                return [pad + '%s = (%s %% %d)' % (key, e.src, bound + 1)]
            self.env[key] = self.env.get(key, bound) + e.hi
            return [pad + '%s += %s' % (key, e.src)]
        # local variable
        if self.locals and rng.random() < 0.5:
            v = rng.choice(self.locals)
        else:
            v = 't%d' % self.nloc
            self.nloc += 1
            self.locals.append(v)
        e = self.expr()
        if v not in self.env:
            # a local must be assigned on every path before it is read: hoisted to the top of the method
            line = '        %s = 0' % v
            if line not in self.hoist:
                self.hoist.append(line)
        self.env[v] = e.hi
        return [pad + '%s = %s' % (v, e.src)]

    def merge(self, env0, envs):
        keys = set(env0)
        for e in envs:
            keys |= set(e)
        self.env = {}
        for k in keys:
            self.env[k] = max(e.get(k, env0.get(k, 0)) for e in envs)

    # ---------------------------------------------------------------- whole block
    def generate(self, cls='Blk'):
        rng = self.rng
        nin = rng.randint(1, 4)
        nout = rng.randint(1, 3)
        self.ins = [('a%d' % i, rng.choice([1, 1, 3, 8, 12, 16, 24])) for i in range(nin)]
        self.outs = [('q%d' % i, rng.choice([1, 4, 8, 16, 32])) for i in range(nout)]
        self.consts = [('k%d' % i, rng.choice([1, 2, 3, 10, 200, rng.randint(0, 1000)])) for i in range(rng.randint(0, 2))]
        if rng.random() < 0.3:
            self.params = [('p%d' % i, rng.choice([1, 2, 5, 60, rng.randint(0, 500)])) for i in range(rng.randint(1, 2))]
        if self.wide and rng.random() < 0.3:
            self.wide_ins = [('w%d' % i, rng.choice([40, 48, 64])) for i in range(rng.randint(1, 2))]
            self.wide_outs = [('x%d' % i, rng.choice([40, 64])) for i in range(rng.randint(1, 2))]
            if rng.random() < 0.3:
                # buses wider than 64 bits, constants of 2**64 and more
                self.wide_ins = [('w%d' % i, rng.choice([72, 96, 128, 200])) for i in range(rng.randint(1, 2))]
                self.wide_outs = [('x%d' % i, rng.choice([72, 128])) for i in range(rng.randint(1, 2))]
                self.wbits = 72
        if self.seq:
            for i in range(rng.randint(1, 3)):
                bound = rng.choice([1, 3, 7, 15, 255, 9, 99, 65535])
                self.state.append(('s%d' % i, rng.randint(0, min(bound, 5)), bound))
        self.env = {'self.%s' % n: b for n, i, b in self.state}
        self.hoist = []
        body = self.stmts(0, rng.randint(2, 6), 2)
        # state invariants must hold again at the end of the method
        for n, init, bound in self.state:
            key = 'self.%s' % n
            if self.env.get(key, bound) > bound:
                if bound & (bound + 1) == 0:
                    body.append('        %s = (%s & %d)' % (key, key, bound))
                else:
                    body.append('        %s = (%s %% %d)' % (key, key, bound + 1))
        all_ins = self.ins + self.wide_ins
        all_outs = self.outs + self.wide_outs
        # every output is driven on every path in a combinational block (no latches)
        if not self.seq:
            pre = ['        self.%s.put(0)' % n for n, w in all_outs]
            body = pre + body
        args = [n for n, w in all_ins] + [n for n, w in all_outs] + [n for n, v in self.consts] + [n for n, v in self.params]
        L = ['import py4hw', '', '', 'class %s(py4hw.Logic):' % cls,
             '    def __init__(self, parent, name, %s):' % ', '.join(args),
             '        super().__init__(parent, name)']
        for n, w in all_ins:
            L.append("        self.%s = self.addIn('%s', %s)" % (n, n, n))
        for n, w in all_outs:
            L.append("        self.%s = self.addOut('%s', %s)" % (n, n, n))
        for n, v in self.consts:
            L.append('        self.%s = %s' % (n, n))
        for n, v in self.params:
            L.append("        self.addParameter('%s', %s)" % (n, n))
        for n, init, bound in self.state:
            L.append('        self.%s = %d' % (n, init))
        L.append('')
        L.append('    def %s(self):' % ('clock' if self.seq else 'propagate'))
        L += self.hoist
        L += body
        L.append('')
        return {'src': '\n'.join(L), 'cls': cls, 'seq': self.seq, 'ins': all_ins, 'outs': all_outs,
                'consts': self.consts + self.params, 'state': [(n, i, b) for n, i, b in self.state]}


# ---------------------------------------------------------------------------- unsupported constructs (refusal clause)

UNSUPPORTED = {
    'for_loop':        '        for i in range(3):\n            self.s0 = (self.s0 + 1) & 255\n',
    'while_loop':      '        while self.s0 < 3:\n            self.s0 = (self.s0 + 1) & 255\n',
    'list_use':        '        tbl = [1, 2, 3, 4]\n        self.q0.prepare(tbl[self.a0.get() & 3])\n',
    'dict_use':        '        tbl = {0: 5, 1: 7}\n        self.q0.prepare(tbl[self.a0.get() & 1])\n',
    'power':           '        self.q0.prepare((self.a0.get() & 3) ** 2)\n',
    'chained_compare': '        if 1 < self.a0.get() < 5:\n            self.q0.prepare(1)\n        else:\n            self.q0.prepare(0)\n',
    'tuple_assign':    '        x, y = self.a0.get(), 3\n        self.q0.prepare(x + y)\n',
    'float_const':     '        self.q0.prepare(int(self.a0.get() * 1.5))\n',
    'string_use':      "        msg = 'AB'\n        self.q0.prepare(ord(msg[self.a0.get() & 1]))\n",
    'helper_call':     '        self.q0.prepare(self.helper(self.a0.get()))\n',
    'ternary_value':   '        self.s0 = 3 if self.a0.get() else 5\n        self.q0.prepare(self.s0)\n',
    'ternary_in_call': '        self.q0.prepare(3 if self.a0.get() else 5)\n',
    'andor_value':     '        self.s0 = (self.a0.get() & 7) or 9\n        self.q0.prepare(self.s0)\n',
    'attr_not_port':   None,    # handled specially: attribute name differs from the port name
    'min_builtin':     '        self.q0.prepare(min(self.a0.get(), 9))\n',
    # match statement forms beyond literal cases and the wildcard
    'match_capture':   '        match self.a0.get() & 3:\n            case 0:\n                self.s0 = 7\n            case v:\n                self.s0 = (self.s0 + v) & 255\n        self.q0.prepare(self.s0)\n',
    'match_or':        '        match self.a0.get() & 7:\n            case 1 | 2:\n                self.s0 = 7\n            case _:\n                self.s0 = (self.s0 + 1) & 255\n        self.q0.prepare(self.s0)\n',
    'aug_assign_attr': '        self.s0 += self.a0.get() & 3\n        self.s0 &= 255\n        self.q0.prepare(self.s0)\n',
    'walrus':          '        if (v := self.a0.get() & 3) > 1:\n            self.s0 = v\n        self.q0.prepare(self.s0)\n',
    'nested_function': '        def f(x):\n            return x + 1\n        self.q0.prepare(f(self.a0.get()) & 255)\n',
    'not_in':          '        if (self.a0.get() & 7) in (1, 3, 5):\n            self.s0 = 1\n        else:\n            self.s0 = 0\n        self.q0.prepare(self.s0)\n',
}


def unsupported_program(kind, cls='Blk'):
    body = UNSUPPORTED[kind]
    attr = 'a0'
    L = ['import py4hw', '', '', 'class %s(py4hw.Logic):' % cls,
         '    def __init__(self, parent, name, a0, q0):',
         '        super().__init__(parent, name)']
    if kind == 'attr_not_port':
        L.append("        self.inp = self.addIn('a0', a0)")
        body = '        self.q0.prepare(self.inp.get() + 1)\n'
    else:
        L.append("        self.a0 = self.addIn('a0', a0)")
    L += ["        self.q0 = self.addOut('q0', q0)", '        self.s0 = 0', '',
          '    def helper(self, v):', '        return (v * 3) & 255', '',
          '    def clock(self):']
    src = '\n'.join(L) + '\n' + body
    return {'src': src, 'cls': cls, 'seq': True, 'ins': [('a0', 8)], 'outs': [('q0', 8)], 'consts': [], 'state': [('s0', 0, 255)], 'unsupported': kind}

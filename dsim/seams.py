"""dsim.seams - the places where the simulator owns py4hw's nondeterminism.

No source hook in /repo is needed: every seam is a public attribute or a module attribute
patched in the check process only.
"""
import random as _random
import numbers
import io
import contextlib

import py4hw
from py4hw.base import Wire, Logic
import py4hw.rtl_generation as _rtl
from py4hw.simulation import Simulator

from .core import Violation

try:
    import numpy as _np
except Exception:  # pragma: no cover
    _np = None


def reset_globals(seed=0):
    """Process-global mutable state of py4hw is reset before and after every run; the two
    real randomness sources of the library are re-seeded from the run seed."""
    # (only what an aborted run of the harness itself can leave behind is cleaned up: the list of prepared wires. Caches
    # of the library - the wire-name cache of the Verilog generator, class attributes - are left alone: if they leak from
    # one design into the next that is the library's behaviour, and the campaign reports it through a history replay)
    Wire.prepared = []
    _random.seed(seed)
    if _np is not None:
        _np.random.seed(seed & 0xFFFFFFFF)


@contextlib.contextmanager
def quiet():
    """py4hw prints WARNING lines and debug output; keep check output clean."""
    buf = io.StringIO()
    with contextlib.redirect_stdout(buf):
        yield buf


# --------------------------------------------------------------------------- hierarchy walks

def walk(obj):
    """all Logic objects below obj (inclusive), children in dict order"""
    yield obj
    for c in obj.children.values():
        yield from walk(c)


def all_wires(root):
    """every wire a user can observe from this hierarchy: wires created by any Logic and wires
    attached to any port (dedup by identity, deterministic order)"""
    seen = {}
    for o in walk(root):
        for w in o._wires.values():
            seen.setdefault(id(w), w)
        for p in o.inPorts + o.outPorts + o.inOutPorts:
            w = p.wire
            if w is not None and isinstance(w, Wire):
                seen.setdefault(id(w), w)
    return list(seen.values())


def check_wire_ranges(root, where, step):
    """C06 invariant, monitored in every run of every property."""
    for w in all_wires(root):
        v = w.value
        if not isinstance(v, numbers.Integral) or isinstance(v, bool) or v < 0 or (v >> w.width) != 0:
            raise Violation('wire-range', 'C06:range:%s' % type(w.parent).__name__, step,
                            'wire %s width=%d value=%r at %s' % (w.getFullPath(), w.width, v, where))


def check_prepared_empty(where, step):
    """C05 invariant: no prepared update is carried over to a later edge."""
    if Wire.prepared:
        names = [w.getFullPath() for w in Wire.prepared[:5]]
        raise Violation('prepared-leak', 'C05:prepared-not-empty', step, '%s at %s' % (names, where))


# --------------------------------------------------------------------------- schedule seams

def perm_children(root, rng, stats=None, deep=True):
    """Re-order every `children` dict below root: changes allLeaves() and therefore the
    unsorted list the topological sorter starts from (different instantiation order)."""
    n = 0
    for o in list(walk(root)) if deep else [root]:
        if len(o.children) > 1:
            items = list(o.children.items())
            rng.shuffle(items)
            o.children = dict(items)
            n += 1
    if stats is not None and n:
        stats.fault('perm_children', n)
    return n


class EdgeShuffler:
    """Wraps Simulator._clk_cycle of one simulator instance: before every edge the visit
    order of clock drivers, of the clockables of each driver and of the listeners is
    re-drawn from the schedule PRNG.  Reinstalls itself after resort / restart."""

    def __init__(self, sim, rng, stats, log=None, kinds=('clockables', 'drivers', 'listeners'), first=None):
        self.first = first          # a clockable that is visited before everything else at every edge (or None)
        self.sim = sim
        self.rng = rng
        self.stats = stats
        self.log = log
        self.kinds = kinds
        self.enabled = True
        sim._clk_cycle = self._cycle

    def _cycle(self):
        sim = self.sim
        if self.enabled:
            sig = []
            if 'drivers' in self.kinds and len(sim.clockDrivers) > 1:
                items = list(sim.clockDrivers.items())
                self.rng.shuffle(items)
                sim.clockDrivers = dict(items)
                self.stats.fault('perm_drivers')
                sig.append(tuple(getattr(d, 'name', d) for d, _ in items))      # (the key type is the library's business)
            if 'clockables' in self.kinds:
                for drv, ds in sim.clockDrivers.items():
                    if len(ds.clockables) > 1:
                        self.rng.shuffle(ds.clockables)
                        self.stats.fault('perm_clockables')
                        sig.append(tuple(o.name for o in ds.clockables[:12]))
            if self.first is not None:
                items = list(sim.clockDrivers.items())
                for i, (drv, ds) in enumerate(items):
                    if any(o is self.first for o in ds.clockables):
                        ds.clockables.sort(key=lambda o: 0 if o is self.first else 1)
                        items.insert(0, items.pop(i))
                        sim.clockDrivers = dict(items)
                        break
            if 'listeners' in self.kinds and len(sim.listeners) > 1:
                self.rng.shuffle(sim.listeners)
                self.stats.fault('perm_listeners')
            if sig:
                self.stats.sched(*sig)
        Simulator._clk_cycle(sim)


def restart_simulator(hw, stats=None):
    """fault sim_restart: drop the Simulator and create a new one mid-run.  Block attributes
    and wire values survive; total_clks and listeners do not."""
    old = hw.simulator
    listeners = list(old.listeners) if old is not None and hasattr(old, 'listeners') else []
    hw.simulator = None
    sim = hw.getSimulator()
    for l in listeners:
        sim.addListener(l)
    if stats is not None:
        stats.fault('sim_restart')
    return sim


def topo_order_violations(sim):
    """C04 oracle (1): sim.propagatables must be a topological order of the wire graph
    restricted to propagatable leaves."""
    pos = {id(o): i for i, o in enumerate(sim.propagatables)}
    bad = []
    for o in sim.propagatables:
        for p in o.outPorts:
            w = p.wire
            if w is None:
                continue
            for sp in w.getSinks():
                s = sp.parent
                if id(s) in pos and pos[id(s)] <= pos[id(o)] and s is not o:
                    bad.append((o.getFullPath(), s.getFullPath()))
    return bad


# --------------------------------------------------------------------------- division by zero probe

def _install_divzero_probe():
    """Div / Mod by zero is documented as nondeterministic (random result).  The probe marks a leaf at the moment
    it evaluates with a zero divisor - also inside a clk(n) call, where the harness cannot look - so that comparisons
    can exclude everything downstream of it (netlist.update_poison)."""
    from py4hw.logic.arithmetic import Div, Mod
    for cls in (Div, Mod):
        if getattr(cls.propagate, '_dsim_probe', False):
            continue
        orig = cls.propagate

        def propagate(self, _orig=orig):
            if self.b.get() == 0:
                self._dsim_divzero = True
            _orig(self)
        propagate._dsim_probe = True
        cls.propagate = propagate


_install_divzero_probe()

#!/venv/bin/python
"""Sensitivity experiments: apply a mutation to a scratch worktree of /repo (never /repo itself),
run a check against it (DSIM_REPO), report, remove the worktree.

  tools/mutant.py [--patch f.diff] [--sub FILE OLD NEW [--nth K]]... -- PROP [run_check args]
"""
import os, subprocess, sys, tempfile, shutil

def main():
    args = sys.argv[1:]
    subs, patches = [], []
    while args and args[0] != '--':
        if args[0] == '--patch':
            patches.append(os.path.abspath(args[1])); args = args[2:]
        elif args[0] == '--sub':
            f, old, new = args[1:4]; args = args[4:]
            nth = None
            if args and args[0] == '--nth':
                nth = int(args[1]); args = args[2:]
            subs.append((f, old, new, nth))
        else:
            sys.exit('bad arg ' + args[0])
    rest = args[1:]
    wt = tempfile.mkdtemp(prefix='mut_', dir='/tmp')
    out = tempfile.mkdtemp(prefix='mutout_', dir='/tmp')
    os.rmdir(wt)
    subprocess.run(['git', '-C', '/repo', 'worktree', 'add', '-q', '--detach', wt, 'HEAD'], check=True, capture_output=True)
    rc = 3
    try:
        for p in patches:
            subprocess.run(['git', '-C', wt, 'apply', p], check=True)
        for f, old, new, nth in subs:
            path = os.path.join(wt, f)
            s = open(path).read()
            old = old.encode().decode('unicode_escape'); new = new.encode().decode('unicode_escape')
            n = s.count(old)
            if n == 0 or (n > 1 and nth is None):
                sys.exit('substitution: %d occurrences of %r in %s' % (n, old, f))
            if nth is None:
                s = s.replace(old, new)
            else:
                parts = s.split(old)
                s = old.join(parts[:nth + 1]) + new + old.join(parts[nth + 1:])
            open(path, 'w').write(s)
        if os.environ.get('MUT_TESTS'):
            t = subprocess.run(['/venv/bin/python', '-m', 'pytest', '-q', '-x', '-p', 'no:cacheprovider', '--timeout=900'],
                               cwd=wt, capture_output=True, text=True, env=dict(os.environ, PYTHONPATH=wt))
            print('unit tests on mutant:', t.stdout.strip().splitlines()[-1])
        env = dict(os.environ, DSIM_REPO=wt, DSIM_OUT=out)
        p = subprocess.run(['timeout', '1500', '/venv/bin/python', '/verif/run_check.py'] + rest, env=env, capture_output=True, text=True)
        lines = [l for l in (p.stdout + p.stderr).splitlines() if not l.startswith(('probes=', 'runs='))]
        print('\n'.join(lines[-12:]))
        rc = p.returncode
        print('exit=%d' % rc)
    finally:
        subprocess.run(['git', '-C', '/repo', 'worktree', 'remove', '--force', wt], capture_output=True)
        shutil.rmtree(out, ignore_errors=True)
    sys.exit(rc)

main()

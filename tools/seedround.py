#!/venv/bin/python
"""Prepare one round of independently written property-breaking changes.

  tools/seedround.py <round dir under /tmp> <tag> C01:a,b C02:a ...   (or 'all:a,b,c')

For every (property, character) a directory <round>/<Cxx>_<ch>/ with TASK.md (the text of the property, the
character asked for, the rules) and a scratch worktree wt/ of /repo HEAD. Nothing of /verif's machinery is
mentioned or reachable from the task text.  `tools/seedround.py --clean <round dir>` removes the worktrees.
"""
import json, os, subprocess, sys

CHAR = {
 'a': "SCALE / THRESHOLD: the change is invisible at the sizes ordinary examples use and shows only beyond a boundary - "
      "a width above 32 or 64 bits, more than a handful of children / inputs / clock domains / watched wires, a deep hierarchy, "
      "a long run (a counter inside the library or in the circuit wraps, a list grows past a limit), a value at the very top or "
      "bottom of its range.",
 'b': "ALIASING / IDENTITY / SHARING: the change is invisible as long as every object is used in one role only and shows when "
      "something is shared or reused - one wire on two ports of a block, one block or driver object referenced from two places, "
      "two objects that compare equal or have the same name / same parameters but are different objects (or the reverse), a cache "
      "or table keyed on a name, a width or an id that two things share, a default argument or class attribute shared between instances.",
 'c': "COINCIDENCE IN TIME: the change is invisible while events are spread out and shows only when two things fall in the same "
      "cycle or exactly one cycle apart - two control pulses together, a request in the very first cycle after power-up or in the last "
      "cycle of a call, back-to-back transfers with no idle cycle, an enable that drops in the cycle data arrives, a value that changes "
      "and changes back between two observations, an operation repeated with nothing in between.",
 'd': "SILENT WRONG DEFAULT / FALLBACK: a rarely taken branch, default value, else-arm, exception handler or 'optimisation' "
      "short-cut that returns a plausible but wrong result for a small class of legal uses (an optional port left out, an optional "
      "argument given as keyword, zero or one element where several are usual, a value that happens to equal a sentinel).",
 'e': "STATE THAT SURVIVES: something computed once and kept (on the object, the class, the module, in a closure or default "
      "argument) that is correct when computed and becomes stale after a later legal step - the circuit is extended, a value / "
      "parameter / name is re-assigned, a second circuit or second simulator is created in the same process, the same call is made "
      "again with another argument.",
}


def main():
    if sys.argv[1] == '--clean':
        root = sys.argv[2]
        for d in sorted(os.listdir(root)):
            wt = os.path.join(root, d, 'wt')
            if os.path.isdir(wt):
                subprocess.run(['git', '-C', '/repo', 'worktree', 'remove', '--force', wt])
        subprocess.run(['git', '-C', '/repo', 'worktree', 'prune'])
        return
    root, tag = sys.argv[1], sys.argv[2]
    props = {}
    for l in open('/verif/properties.jsonl'):
        p = json.loads(l)
        props[p['id']] = p
    want = []
    for spec in sys.argv[3:]:
        pid, chars = spec.split(':')
        ids = [k for k in props if k not in ('C12', 'C18')] if pid == 'all' else [pid]
        for i in ids:
            for ch in chars.split(','):
                want.append((i, ch))
    os.makedirs(root, exist_ok=True)
    for pid, ch in want:
        p = props[pid]
        d = os.path.join(root, '%s_%s' % (pid, ch))
        os.makedirs(d, exist_ok=True)
        wt = os.path.join(d, 'wt')
        if not os.path.isdir(wt):
            subprocess.run(['git', '-C', '/repo', 'worktree', 'add', '-q', '--detach', wt, 'HEAD'], check=True)
        anchors = p.get('anchors', {})
        mech = '\n'.join('  - %s (%s)' % (m['name'], m.get('where', '')) for m in anchors.get('mechanism', []) + anchors.get('state', []))
        task = f"""# Task ({tag}, {pid}, character {ch})

You are working in a scratch git worktree of the Python library **py4hw** (a Python HDL library with a cycle-based
circuit simulator, a structural / behavioural circuit library, Verilog generation and a Python-to-Verilog transpiler):

    {wt}

Work ONLY inside that directory (and this task directory `{d}` for your deliverables). Do not read or write `/repo`,
`/verif` or any other directory outside these two; do not commit anything. Python is `/venv/bin/python`; run things with
`PYTHONPATH={wt}` so that your worktree is the py4hw that gets imported (check with
`PYTHONPATH={wt} /venv/bin/python -c "import py4hw; print(py4hw.__file__)"`). There is no network.

## The property

**{p['title']}**

{p['statement']}

It is meant to hold over: {p['quantifier']['text']}.

Code it is anchored in: {', '.join(anchors.get('files', []))}
{mech}

## What to produce

A *realistic* change to py4hw (the kind of edit a maintainer could make while refactoring, optimising, adding a feature
or fixing something else - not sabotage that looks like sabotage) such that

1. the library still imports and the existing test suite still passes with the change:
   `cd {wt} && PYTHONPATH={wt} /venv/bin/python -m pytest -q -p no:cacheprovider --timeout=900`
   (161 tests; `Test_FPAdder_SP::test_random` is randomly flaky by itself, re-run if only that one fails);
2. the property above is **broken** for some legal use of the library;
3. the breakage needs something specific to manifest - ordinary use (the obvious small example, the unit tests'
   usage) must still work. The character asked of *your* change is:

   **{CHAR[ch]}**

   Interpret this for the code behind this property; the trigger must be a legal use a real user could plausibly hit.
   Prefer a change whose effect is a *wrong result that nobody is told about* over a crash.

## Deliverables (all in `{d}`)

* `patch.diff` - output of `git -C {wt} diff` (library files only; no test files, no new files outside `py4hw/`).
* `demo.py` - a small self-contained program using only the public API of py4hw that exits 0 on the unchanged library
  and exits non-zero (assert / sys.exit(1)) with your change applied, because the property is violated. It must be
  deterministic and finish within a minute. It is run as `PYTHONPATH=<tree> /venv/bin/python demo.py`.
* `meta.json` - `{{"property": "{pid}", "summary": "<what was changed, 1-3 sentences>", "needs": "<what exactly is needed
  for the breakage to manifest>", "files": [...], "why_tests_pass": "<one sentence>"}}`

Before you finish, verify all of it yourself: demo passes on the clean tree (write patch.diff, then `git apply -R patch.diff` and afterwards
`git apply patch.diff` in the worktree - do NOT use `git stash`, the stash is shared with other worktrees), the full test suite passes with the change, demo fails with the change. Leave the worktree WITH the change
applied. Your final message: the summary, the trigger, and the commands you ran with their results.
"""
        open(os.path.join(d, 'TASK.md'), 'w').write(task)
        print(d)


main()

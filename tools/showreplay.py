#!/venv/bin/python
"""print a replay file compactly; with --verilog also print the emitted text for netlist-based scenarios"""
import json, sys, os
sys.path.insert(0, '/verif'); sys.path.insert(1, os.environ.get('DSIM_REPO', '/repo'))
f = sys.argv[1]
b = json.load(open(f)); s = b['scenario']
print(b['property'], b['violation'])
d = s.get('design')
if d:
    print('inputs', json.dumps(d['inputs']))
    for n in d['nodes']:
        print('  ', n)
    print('outputs', d['outputs'], 'order', s.get('order'), {k: v for k, v in d.items() if k not in ('inputs', 'nodes', 'outputs', 'order')})
for k, v in s.items():
    if k not in ('design', 'order'):
        print(k, '=', json.dumps(v)[:600])
if '--verilog' in sys.argv and d:
    import py4hw
    from dsim import netlist, seams
    bb = netlist.Built(d).build(s.get('order'))
    with seams.quiet():
        t = py4hw.VerilogGenerator(bb.dut).getVerilogForHierarchy()
    print(t)

#!/usr/bin/env python3
"""Regenerates the table of DESIGN.md section 6.4 from seeded/*/meta.json and seeded/notes.json
(notes.json: id -> why the change was missed at first and what was strengthened).
usage: tools/seedtable.py            prints the table
       tools/seedtable.py --write    replaces the text between the markers in DESIGN.md"""
import json, os, re, sys

ROOT = os.path.dirname(os.path.dirname(os.path.abspath(__file__)))
BEGIN, END = '<!-- seedtable:begin -->', '<!-- seedtable:end -->'


def key(d):
    m = re.match(r'C(\d+)_(\d+)', d)
    return (int(m.group(1)), int(m.group(2)))


def cell(s, n=150):
    s = ' '.join(str(s).split()).replace('|', '/')
    return s if len(s) <= n else s[:n - 1] + '…'


def table():
    notes = json.load(open(os.path.join(ROOT, 'seeded', 'notes.json')))
    dirs = sorted((d for d in os.listdir(os.path.join(ROOT, 'seeded')) if re.match(r'C\d+_\d+$', d)), key=key)
    out = ['| id | change | needs | caught by |', '|---|---|---|---|']
    n_missed = 0
    for d in dirs:
        m = json.load(open(os.path.join(ROOT, 'seeded', d, 'meta.json')))
        checks = m.get('verified', {}).get('checks', {})
        caught = sorted(c for c, r in checks.items() if r.get('exit') == 1 and r.get('violations'))
        c = ', '.join(caught) if caught else 'NOT CAUGHT'
        if d in notes:
            n_missed += 1
            c += ' (missed at first: %s)' % notes[d]
        out.append('| %s | %s | %s | %s |' % (d, cell(m.get('summary', '')), cell(m.get('needs', '')), c))
    return '\n'.join(out), len(dirs), n_missed


if __name__ == '__main__':
    t, n, nm = table()
    if '--write' in sys.argv:
        p = os.path.join(ROOT, 'DESIGN.md')
        s = open(p).read()
        a, b = s.index(BEGIN) + len(BEGIN), s.index(END)
        open(p, 'w').write(s[:a] + '\n' + t + '\n' + s[b:])
    else:
        print(t)
    print('%d changes, %d missed at first' % (n, nm), file=sys.stderr)

#!/venv/bin/python
"""Confirm a seeded change and run the checks against it (never touches /repo itself).

  tools/seedtest.py <dir with patch.diff demo.py meta.json> [--checks C04,C05] [--tier quick] [--keep <dest>]
Steps: scratch worktree of /repo HEAD; demo passes on the clean tree; patch applies; unit tests pass;
demo fails with the patch; every requested check is run against the patched tree (DSIM_REPO).
With --keep the directory is copied to <dest> (/verif/seeded/<id>) with the results added to meta.json.
"""
import argparse, json, os, shutil, subprocess, sys, tempfile

def sh(cmd, **kw):
    return subprocess.run(cmd, capture_output=True, text=True, **kw)

def main():
    ap = argparse.ArgumentParser()
    ap.add_argument('dir')
    ap.add_argument('--checks', default='')
    ap.add_argument('--tier', default='quick')
    ap.add_argument('--keep', default=None)
    ap.add_argument('--runs', default=None)
    a = ap.parse_args()
    d = os.path.abspath(a.dir)
    meta = json.load(open(os.path.join(d, 'meta.json')))
    checks = [c for c in a.checks.split(',') if c] or [meta['property']]
    wt = tempfile.mkdtemp(prefix='seedwt_', dir='/tmp'); os.rmdir(wt)
    out = tempfile.mkdtemp(prefix='seedout_', dir='/tmp')
    sh(['git', '-C', '/repo', 'worktree', 'add', '-q', '--detach', wt, 'HEAD'])
    res = {'repo_commit': sh(['git', '-C', '/repo', 'log', '--format=%h', '-1']).stdout.strip()}
    try:
        env = dict(os.environ, PYTHONPATH=wt)
        r = sh(['timeout', '300', '/venv/bin/python', os.path.join(d, 'demo.py')], env=env, cwd=d)
        res['demo_clean_exit'] = r.returncode
        p = sh(['git', '-C', wt, 'apply', os.path.join(d, 'patch.diff')])
        res['patch_applies'] = p.returncode == 0
        if p.returncode != 0:
            print('PATCH DOES NOT APPLY', p.stderr[:300])
        else:
            fails = None
            for attempt in range(3):
                t = sh(['timeout', '900', '/venv/bin/python', '-m', 'pytest', '-q', '-p', 'no:cacheprovider', '--timeout=900'], env=env, cwd=wt)
                last = (t.stdout.strip().splitlines() or ['?'])[-1]
                fl = [l for l in t.stdout.splitlines() if l.startswith('FAILED')]
                if not fl:
                    fails = []
                    break
                fails = fl
                if not all('test_random' in l for l in fl):
                    break
            res['unit_tests'] = last
            res['unit_test_failures'] = fails
            r = sh(['timeout', '300', '/venv/bin/python', os.path.join(d, 'demo.py')], env=env, cwd=d)
            res['demo_patched_exit'] = r.returncode
            res['checks'] = {}
            for c in checks:
                cmd = ['timeout', '3000', '/venv/bin/python', '/verif/run_check.py', c, '--tier', a.tier]
                if a.runs:
                    cmd += ['--runs', a.runs]
                k = sh(cmd, env=dict(os.environ, DSIM_REPO=wt, DSIM_OUT=out))
                viol = [l for l in k.stdout.splitlines() if l.startswith('violation:')]
                res['checks'][c] = {'exit': k.returncode, 'violations': [v[:300] for v in viol[:4]],
                                    'harness_fault': [l for l in k.stdout.splitlines() if 'HARNESS-FAULT' in l][:2]}
    finally:
        sh(['git', '-C', '/repo', 'worktree', 'remove', '--force', wt])
        shutil.rmtree(out, ignore_errors=True)
    print(json.dumps(res, indent=1))
    ok = res.get('demo_clean_exit') == 0 and res.get('patch_applies') and res.get('unit_test_failures') == [] and res.get('demo_patched_exit', 0) != 0
    print('CONFIRMED' if ok else 'NOT-CONFIRMED', '| caught by:', [c for c, v in res.get('checks', {}).items() if v['exit'] == 1])
    if a.keep and ok:
        os.makedirs(a.keep, exist_ok=True)
        for f in ('patch.diff', 'demo.py'):
            if os.path.abspath(os.path.join(d, f)) != os.path.abspath(os.path.join(a.keep, f)):
                shutil.copy(os.path.join(d, f), os.path.join(a.keep, f))
        meta['verified'] = res
        meta['what_was_run'] = 'tools/seedtest.py: demo on clean tree (exit 0), git apply, unit tests, demo on patched tree (non-zero), checks %s tier %s against the patched worktree' % (checks, a.tier)
        json.dump(meta, open(os.path.join(a.keep, 'meta.json'), 'w'), indent=1)
    return 0

main()

#!/bin/bash
# tools/seedconfirm.sh <round dir> <id> [checks]   - confirm one delivered change and run checks against it; removes the agent's worktree
root=$1; id=$2; checks=${3:-${id%%_*}}
d=$root/$id
[ -f $d/patch.diff ] && [ -f $d/demo.py ] && [ -f $d/meta.json ] || { echo "$id: deliverables missing"; exit 2; }
[ -d $d/wt ] && git -C /repo worktree remove --force $d/wt
/verif/tools/seedtest.py $d --checks "$checks" > $d/confirm_$checks.log 2>&1
tail -1 $d/confirm_$checks.log | sed "s/^/$id [$checks]: /"
grep -h '"violation: ' $d/confirm_$checks.log | head -3

#!/bin/bash
# tools/seedkeep.sh <round dir> <id>:<checks> ...   - confirm again, run the checks and keep the change as seeded/<Cxx>_<next free n>
root=$1; shift
for spec in "$@"; do
  id=${spec%%:*}; checks=${spec##*:}; prop=${id%%_*}
  n=1; while [ -e /verif/seeded/${prop}_$n ] || [ -e /tmp/seedkeep.lock.${prop}_$n ]; do n=$((n+1)); done
  touch /tmp/seedkeep.lock.${prop}_$n
  dest=/verif/seeded/${prop}_$n
  r=$(/verif/tools/seedtest.py $root/$id --checks "$checks" --keep $dest 2>&1 | tail -1)
  rm -f /tmp/seedkeep.lock.${prop}_$n
  echo "$id -> ${prop}_$n [$checks]: $r"
done

#!/venv/bin/python
"""Writes MANIFEST.json from the list of built property modules (single source of truth)."""
import json, os, sys
HERE = os.path.dirname(os.path.abspath(__file__))
sys.path.insert(0, HERE)

TEXT = {
 'C01': ('differential co-simulation of the real py4hw cycle simulator against an IEEE 1364 event simulator (vsim) executing the emitted text, under seeded instantiation orders and seeded IEEE-legal event orders (race probe every 8th cycle); outputs compared from power-up on every cycle; mismatches blamed on the first diverging block and attributed to uninitialised storage when they vanish under zero power-up',
         'samples designs/inputs/schedules; trusted base: vsim (written for this task, 388 self-tests incl. IEEE worked examples); single clock domain; open findings KF-C01-2..5 (memory bodies) excluded by narrow predicates and replayed'),
 'C02': ('co-simulation of behavioural blocks (8 library blocks that reach the transpiler + seeded random clock()/propagate() programs with interval-checked value ranges + one-unsupported-construct programs) against vsim; outputs and integer state variables compared after every edge; refusal clause: exception, or text that elaborates and agrees',
         'samples programs and input histories; trusted base: vsim; programs kept inside the stated value domain by construction; open findings KF-C02-1/2'),
 'C03': ('every text returned by seeded generation histories (whole hierarchy, child module via different ancestors, createdStructures, interleaved/crashed generations) over netlists with seeded naming faults is parsed and elaborated by vsim with exactly the rules the statement lists',
         'static property; the simulator contributes the elaborator and the call-history dimension; instances that share a module name must give the same body; designs of 300-1000 modules in a seeded minority; open findings KF-C03-1..5'),
 'C04': ('seeded search over instantiation orders, late construction, re-sorts, restarts and duplicate evaluation; oracles: topological order, local fixpoint of every stateless leaf, equality with a twin whose real leaves are evaluated by the harness in its own Kahn order, refusal of combinational cycles (length 1-12, across hierarchy), acceptance of cycles through registers',
         'samples schedules and netlists; a seeded minority of bulk netlists (1100-9000 leaves, to 33000 thorough), 12-48 level hierarchies and 260-bit wires; twin shares the leaf propagate() code (functional defects are C07/C08 matters)'),
 'C05': ('visit order of drivers / clockables / listeners re-drawn before every edge, runs split, cancelled (stop) and resumed, re-sorted, restarted; oracles: twin stepped one edge at a time by the harness, pure-Python two-phase reference, Wire.prepared empty after every call, no double prepare, total_clks accounting',
         'samples designs and schedules; a seeded minority of 300-4200 register rings, 300-2500 edge bursts, deep hierarchies; inputs change only between clk calls'),
 'C06': ('adversarial constants / reset values / sequence values / pokes (negative, oversized, 2**200) over the whole catalogue; range invariant checked after construction, after every clk, inside listeners and in Waveform samples; the same invariant is monitored in every run of every other check',
         'samples; observation = Wire.value of every reachable wire'),
 'C07': ('one arithmetic block per run inside a registered live testbench with toggling vector sequences and schedule faults (perm_children, resort, sim_restart, extra_settle); oracle: integer function modulo 2**width',
         'weak fit stated in DESIGN.md: the deciding dimension is seeded sampling of (configuration, input); simulation adds history/schedule independence; 12 % of the runs beyond 64 bits (to 260)'),
 'C08': ('one logic/selector/comparator block per run inside a registered live testbench with schedule faults; oracle: documented truth table',
         'weak fit stated in DESIGN.md; sampled, never enumerated products; 12 % of the runs beyond 64 bits / 64 inputs (to 260 bits, 130 inputs)'),
 'C09': ('one sequential block per run from power-up under Markov input histories (collisions of reset/enable/inc, push+pop, overfill, same-address read/write), permuted leaf visit order, split/re-sorted/restarted runs; oracle: documented state machine after every call',
         'samples histories and configurations; models in dsim/catalog.py'),
 'C10': ('1-4 clock drivers at seeded hierarchy levels, enables from inputs / other domains / the gated domain itself, 1-3 bit enables, long and single-cycle stalls, permuted driver and leaf order; oracles: reference that clocks a node iff its nearest driver was enabled before the edge, twin of real blocks under the same rule, explicit hold check',
         'samples'),
 'C11': ('model-based construction histories with injected illegal operations (second driver, duplicate child, duplicate wire by create/rename/reparent) + integrity acceptance / single-fault rejection on catalogue netlists; oracle: registry model (raise iff conflict, earlier object stays), independent walk for undriven port wires',
         'samples operation sequences; a refused rename leaving the wire unregistered is outside the statement'),
 'C13': ('one FP block per run in a live testbench with schedule faults; oracle: exact fractions.Fraction arithmetic with the bounds of the statement (ulp, sign, commutativity, truncation, flags)',
         'weak fit stated in DESIGN.md; domain = finite normal operands, normal exact result'),
 'C14': ('one fixed-point block per run in a live testbench with schedule faults; oracle: exact scaled-integer arithmetic; all encodings for widths <= 6',
         'weak fit stated in DESIGN.md'),
 'C15': ('recorder position among clockables permuted, runs split / cancelled / restarted, clear() between segments; oracles: shadow recorder in a harness-stepped twin, getDict equality, WaveDrom decoder round-trip, span = cycles + 2',
         'samples'),
 'C16': ('real adapters (and a kernel with VitisKernelFSM) against fake AXI master/slave/controller with stalls, bursts, reset/done/restart/load landing inside transfers; statement-derived monitors over the recorded history (READY = active, capture/clear rules, VALID persistence, data = latest load, LAST = VALID, KEEP, sent only after a beat, bounded progress)',
         'samples schedules; beat = VALID & READY & active; done only after a completed transfer'),
 'C17': ('real serializer -> line -> clock recovery + deserializer with seeded gaps, bursts, phase, bounded consumer stalls, ratios 4-64 (a seeded minority at 434-868 and 2604-10416 clocks per bit), permuted leaf order; oracles: exactly-once in-order delivery, independent software 8N1 receiver on the recorded line, bounded latency',
         'samples; consumer READY never low for more than 3 bit times'),
 'C19': ('histories over 1-3 circuits (hierarchy / child-module generation via different ancestors, same / fresh generator, createdStructures, simulation steps, crashing generation, circuit extended between generations); oracles: canonical text stable per request, never-generated twin simulates identically, text after extension equals that of a never-generated circuit',
         'samples histories; canonicalisation = hex-suffix renaming + sorted wire declarations (the two differences the statement allows)'),
 'C20': ('real CMDRequest / CMDResponse (also chained) against a fake character producer and response consumer with seeded gaps and READY; oracle: command-level reference parser (each action pulses once with the right number, K n ; gives n pulses), response spelling, bounded progress',
         'samples; a new O..? only after the previous response was taken'),
}
TECH = 'deterministic simulation with fault injection: seeded schedule/fault search, invariants per step + history oracles, minimised replay'

def main():
    props = sorted(f[:-3].upper() for f in os.listdir(os.path.join(HERE, 'dsim', 'props')) if f.startswith('c') and f.endswith('.py'))
    checks = []
    for p in props:
        text, note = TEXT.get(p, ('seeded simulation campaign, see DESIGN.md', 'see DESIGN.md'))
        checks.append({
            'property_id': p,
            'quick_cmd': 'timeout 1500 /venv/bin/python run_check.py %s --tier quick' % p,
            'thorough_cmd': 'timeout 7000 /venv/bin/python run_check.py %s --tier thorough' % p,
            'evidence_file': 'evidence/%s.json' % p,
            'replay_cmd_template': '/venv/bin/python run_check.py --replay {path}',
            'engine': 'dsim',
            'level_claimed': {'category': 'exploration', 'text': text, 'design_ref': 'DESIGN.md section 3, ' + p},
            'level_note': note,
            'technique': TECH,
        })
    m = {
        'version': 1,
        'setup_cmd': '/venv/bin/python -c "import py4hw" && /venv/bin/python selftest/smoke.py && /venv/bin/python -m dsim.vsim.selftest',
        'hooks': {'guard': 'PY4HW_VERIF', 'enable': 'no source hooks: every seam is a monkeypatch applied inside the check process (dsim/seams.py)',
                  'baseline_off_cmd': 'cd /repo && /venv/bin/python -m pytest -ra -q -p no:cacheprovider --timeout=900 --continue-on-collection-errors',
                  'source_commits': [], 'add_only': True},
        'engines': [{'name': 'dsim', 'path': 'dsim/', 'serves_properties': props,
                     'kind_free_text': 'custom deterministic simulator harness for py4hw: seeded scheduler over instantiation/visit orders, fault injector, reference models, twin systems, Verilog event simulator (vsim), minimiser and replay'}],
        'checks': checks,
        'not_applicable': [
            {'property_id': 'C12', 'reason': 'pure functions of their arguments (number-format helpers): no schedule, clock, peer, fault or shared state for a simulator to own'},
            {'property_id': 'C18', 'reason': 'schematic place-and-route is a pure function of a netlist; no clock, schedule, I/O or peer; its only nondeterminism (address-ordered set iteration) cannot be owned by a simulator'},
        ],
        'notes': 'fix commits in /repo are listed in known_findings.json under "fixed".',
    }
    json.dump(m, open(os.path.join(HERE, 'MANIFEST.json'), 'w'), indent=1)
    print('MANIFEST.json: %d checks' % len(checks))

if __name__ == '__main__':
    main()

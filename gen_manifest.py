#!/venv/bin/python
"""Writes MANIFEST.json from the list of built property modules (single source of truth)."""
import json, os, sys
HERE = os.path.dirname(os.path.abspath(__file__))
sys.path.insert(0, HERE)

TEXT = {
 'C04': ('seeded search over instantiation orders, late construction, re-sorts, restarts and duplicate evaluation; oracles: topological order, local fixpoint of every stateless leaf, equality with a twin whose real leaves are evaluated by the harness in its own Kahn order, refusal of combinational cycles (length 1-12, across hierarchy), acceptance of cycles through registers',
         'samples schedules and netlists; twin shares the leaf propagate() code (functional defects are C07/C08 matters)'),
}
TECH = 'deterministic simulation with fault injection: seeded schedule/fault search, invariants per step + history oracles, minimised replay'

def main():
    props = sorted(f[:-3].upper() for f in os.listdir(os.path.join(HERE, 'dsim', 'props')) if f.startswith('c') and f.endswith('.py'))
    checks = []
    for p in props:
        text, note = TEXT.get(p, ('seeded simulation campaign, see DESIGN.md', 'see DESIGN.md'))
        checks.append({
            'property_id': p,
            'quick_cmd': 'timeout 1500 /venv/bin/python run_check.py %s --tier quick' % p,
            'thorough_cmd': 'timeout 7000 /venv/bin/python run_check.py %s --tier thorough' % p,
            'evidence_file': 'evidence/%s.json' % p,
            'replay_cmd_template': '/venv/bin/python run_check.py --replay {path}',
            'engine': 'dsim',
            'level_claimed': {'category': 'exploration', 'text': text, 'design_ref': 'DESIGN.md section 3, ' + p},
            'level_note': note,
            'technique': TECH,
        })
    m = {
        'version': 1,
        'setup_cmd': '/venv/bin/python -c "import py4hw, hypothesis" && /venv/bin/python selftest/smoke.py',
        'hooks': {'guard': 'PY4HW_VERIF', 'enable': 'no source hooks: every seam is a monkeypatch applied inside the check process (dsim/seams.py)',
                  'baseline_off_cmd': 'cd /repo && /venv/bin/python -m pytest -ra -q -p no:cacheprovider --timeout=900 --continue-on-collection-errors',
                  'source_commits': [], 'add_only': True},
        'engines': [{'name': 'dsim', 'path': 'dsim/', 'serves_properties': props,
                     'kind_free_text': 'custom deterministic simulator harness for py4hw: seeded scheduler over instantiation/visit orders, fault injector, reference models, twin systems, Verilog event simulator (vsim), minimiser and replay'}],
        'checks': checks,
        'not_applicable': [
            {'property_id': 'C12', 'reason': 'pure functions of their arguments (number-format helpers): no schedule, clock, peer, fault or shared state for a simulator to own'},
            {'property_id': 'C18', 'reason': 'schematic place-and-route is a pure function of a netlist; no clock, schedule, I/O or peer; its only nondeterminism (address-ordered set iteration) cannot be owned by a simulator'},
        ],
        'notes': 'fix commits in /repo are listed in known_findings.json under "fixed".',
    }
    json.dump(m, open(os.path.join(HERE, 'MANIFEST.json'), 'w'), indent=1)
    print('MANIFEST.json: %d checks' % len(checks))

if __name__ == '__main__':
    main()

#!/venv/bin/python
"""Entry point of every check.

  run_check.py Cxx [--tier quick|thorough] [--seed N] [--runs N] [--jobs N]
  run_check.py --replay <file> [--quiet]

exit 0 = property held on everything explored (possibly with KNOWN-FINDING lines)
exit 1 = VIOLATION line printed (or, with --replay, the replay reproduced)
exit 2 = harness fault (never a pass, never a violation)
"""
import os
import sys

if os.environ.get('PYTHONHASHSEED') != '0' and not os.environ.get('DSIM_KEEP_HASHSEED'):
    os.environ['PYTHONHASHSEED'] = '0'
    os.execv(sys.executable, [sys.executable] + sys.argv)

HERE = os.path.dirname(os.path.abspath(__file__))
sys.path.insert(0, HERE)
os.chdir(HERE)
# py4hw is imported from /repo's working tree (editable install); make that explicit
# (DSIM_REPO points the harness at a scratch worktree for sensitivity experiments only)
sys.path.insert(1, os.environ.get('DSIM_REPO', '/repo'))
os.environ.setdefault('MPLBACKEND', 'Agg')

import argparse
import io
import contextlib
import traceback


def main():
    ap = argparse.ArgumentParser()
    ap.add_argument('prop', nargs='?')
    ap.add_argument('--tier', default=os.environ.get('VERIF_TIER', 'quick'))
    ap.add_argument('--seed', type=int, default=int(os.environ.get('VERIF_SEED', '0')))
    ap.add_argument('--runs', type=int, default=None)
    ap.add_argument('--jobs', type=int, default=None)
    ap.add_argument('--replay', default=None)
    ap.add_argument('--quiet', action='store_true')
    a = ap.parse_args()
    from dsim import core
    try:
        if a.replay:
            ok, viol, dig, log = core.replay_file(a.replay, verbose=not a.quiet)
            if not a.quiet:
                for l in log.lines[-40:]:
                    print('  ' + l)
            import json
            body = json.load(open(a.replay))
            if ok:
                print('REPRODUCED property=%s signature=%s step=%s digest=%s' % (body['property'], viol['sig'], viol['step'], dig))
                print('VIOLATION property=%s replay=%s' % (body['property'], a.replay))
                return 1
            print('NOT-REPRODUCED property=%s wanted=%s got=%s' % (body['property'], body['violation']['sig'], viol and (viol['sig'], viol['step'])))
            return 0
        if not a.prop:
            ap.error('property id required')
        if a.tier not in ('quick', 'thorough'):
            ap.error('tier')
        return core.campaign(a.prop.upper(), a.tier, a.seed, nruns=a.runs, jobs=a.jobs)
    except core.HarnessFault as e:
        print('HARNESS-FAULT: %s' % e)
        return 2
    except Exception:
        traceback.print_exc()
        print('HARNESS-FAULT: unexpected exception')
        return 2


if __name__ == '__main__':
    sys.exit(main())
